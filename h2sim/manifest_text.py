"""Texts for MANIFEST.json, per property."""
SIM = 'seeded deterministic simulation of two real endpoints + simulated network/apps; '
TEXT = {
 'C17': {'level': 'Exploration: thousands of seeded simulated conversations in which live h2-to-h2 traffic is corrupted (bit flips, field rewrites, drop/dup/swap/truncate, injected and adversary frames, HPACK garbage, cuts, 1-byte segmentation) in realistic deep connection states; every receive_data outcome must be a list or a ProtocolError. Sampling, not proof; right level because the input space is unbounded and the failures need state + damage to line up.',
         'ref': 'DESIGN.md 6/C17', 'note': 'hyperframe/hpack as installed are trusted; fault catalogue of section 2.4',
         'technique': 'deterministic simulation + byte/frame fault injection, exception-type oracle'},
}
NOT_APPLICABLE = []
ALL = ['C%02d' % i for i in range(1, 30)]
def _na():
    return [{'property_id': p, 'reason': 'check not yet built in this round (planned, see DESIGN.md section 6); not a claim of inapplicability'} for p in ALL if p not in TEXT]
NOT_APPLICABLE = _na()
