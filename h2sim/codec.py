"""Independent HTTP/2 frame codec written from RFC 7540 section 4/6, RFC 7838.

Imports nothing from hyperframe / hpack / h2.  Used by the wire taps (oracle
side) and by the adversary / fault injector (generation side).
"""
import struct

DATA, HEADERS, PRIORITY, RST_STREAM, SETTINGS, PUSH_PROMISE, PING, GOAWAY, \
    WINDOW_UPDATE, CONTINUATION, ALTSVC = range(11)
TYPE_NAMES = {0: 'DATA', 1: 'HEADERS', 2: 'PRIORITY', 3: 'RST_STREAM',
              4: 'SETTINGS', 5: 'PUSH_PROMISE', 6: 'PING', 7: 'GOAWAY',
              8: 'WINDOW_UPDATE', 9: 'CONTINUATION', 10: 'ALTSVC'}

F_END_STREAM = 0x1
F_ACK = 0x1
F_END_HEADERS = 0x4
F_PADDED = 0x8
F_PRIORITY = 0x20

PREFACE = b'PRI * HTTP/2.0\r\n\r\nSM\r\n\r\n'

# error codes
NO_ERROR, PROTOCOL_ERROR, INTERNAL_ERROR, FLOW_CONTROL_ERROR, SETTINGS_TIMEOUT, \
    STREAM_CLOSED, FRAME_SIZE_ERROR, REFUSED_STREAM, CANCEL, COMPRESSION_ERROR, \
    CONNECT_ERROR, ENHANCE_YOUR_CALM, INADEQUATE_SECURITY, HTTP_1_1_REQUIRED = range(14)

# settings ids
S_HEADER_TABLE_SIZE, S_ENABLE_PUSH, S_MAX_CONCURRENT_STREAMS, S_INITIAL_WINDOW_SIZE, \
    S_MAX_FRAME_SIZE, S_MAX_HEADER_LIST_SIZE = range(1, 7)
S_ENABLE_CONNECT_PROTOCOL = 8


class Frame:
    """A parsed (or to-be-serialised) frame.

    ``bad`` is None for a frame that is well-formed per RFC 7540 section 4/6
    taken alone (no connection state), else a tuple (category, text) where
    category is 'size' (-> FRAME_SIZE_ERROR) or 'proto' (-> PROTOCOL_ERROR).
    """
    __slots__ = ('type', 'flags', 'sid', 'payload', 'length', 'bad', 'rbit',
                 'data', 'pad', 'prio', 'fragment', 'promised', 'error_code',
                 'increment', 'settings', 'opaque', 'last_sid', 'debug',
                 'origin', 'field', 'offset', 'headers', 'hpack_error',
                 'block_frames', 'table_updates', 'header_list_size', 'src_step', 'problems', 'quirk')

    def __init__(self, type_, flags=0, sid=0, payload=b''):
        self.type = type_
        self.flags = flags
        self.sid = sid
        self.payload = payload
        self.length = len(payload)
        self.bad = None
        self.rbit = 0
        self.data = None
        self.pad = None        # pad length (int) when PADDED
        self.prio = None       # (depends_on, exclusive, weight_wire)
        self.fragment = None
        self.promised = None
        self.error_code = None
        self.increment = None
        self.settings = None   # list of (id, value)
        self.opaque = None
        self.last_sid = None
        self.debug = None
        self.origin = None
        self.field = None
        self.offset = None     # byte offset of frame start in its direction
        self.headers = None    # decoded [(name, value, mode)] for a complete block (on first frame)
        self.hpack_error = None
        self.block_frames = None
        self.table_updates = None
        self.header_list_size = None
        self.src_step = None   # (sender side) the Step that emitted this frame
        self.problems = ()     # every (category, text) found, f.bad is one of them
        self.quirk = None      # hits a documented quirk of the hyperframe dependency (oracles abstain)

    @property
    def name(self):
        return TYPE_NAMES.get(self.type, 'UNKNOWN(%d)' % self.type)

    def has(self, flag):
        return bool(self.flags & flag)

    @property
    def end_stream(self):
        return self.type in (DATA, HEADERS) and bool(self.flags & F_END_STREAM)

    @property
    def ack(self):
        return self.type in (SETTINGS, PING) and bool(self.flags & F_ACK)

    @property
    def end_headers(self):
        return self.type in (HEADERS, PUSH_PROMISE, CONTINUATION) and bool(self.flags & F_END_HEADERS)

    @property
    def fc_len(self):
        """flow-controlled length of a DATA frame: whole payload incl. padding."""
        return self.length

    def brief(self):
        d = {'t': self.name, 'sid': self.sid, 'len': self.length, 'fl': self.flags}
        if self.bad:
            d['bad'] = self.bad[0]
        if self.type == DATA:
            d['dlen'] = len(self.data) if self.data is not None else None
            if self.pad is not None:
                d['pad'] = self.pad
        if self.prio is not None:
            d['prio'] = list(self.prio)
        if self.promised is not None:
            d['promised'] = self.promised
        if self.error_code is not None:
            d['code'] = self.error_code
        if self.increment is not None:
            d['inc'] = self.increment
        if self.settings is not None:
            d['settings'] = [list(x) for x in self.settings]
        if self.last_sid is not None:
            d['last'] = self.last_sid
        return d

    def __repr__(self):
        return 'Frame(%r)' % (self.brief(),)

    def serialize(self):
        return struct.pack('>I', len(self.payload))[1:] + bytes([self.type & 0xff, self.flags & 0xff]) + \
            struct.pack('>I', (self.sid & 0x7fffffff) | (self.rbit << 31)) + self.payload


def parse_payload(f):
    """Fill typed fields of f from f.payload; set f.bad for malformed frames."""
    t, p, n = f.type, f.payload, f.length
    fl = f.flags

    def strip_padding(body):
        if fl & F_PADDED:
            if len(body) < 1:
                f.bad = ('size', 'padded frame without pad length')
                return None
            pad = body[0]
            f.pad = pad
            body = body[1:]
            return body, pad
        return body, 0

    if t == DATA:
        if f.sid == 0:
            f.bad = ('proto', 'DATA on stream 0')
        r = strip_padding(p)
        if r is None:
            return
        body, pad = r
        if pad > len(body):
            f.bad = f.bad or ('proto', 'padding longer than payload')
            f.data = b''
            return
        f.data = bytes(body[:len(body) - pad])
    elif t == HEADERS:
        if f.sid == 0:
            f.bad = ('proto', 'HEADERS on stream 0')
        r = strip_padding(p)
        if r is None:
            return
        body, pad = r
        rest = len(body)
        if (fl & F_PADDED) and ((not (fl & F_PRIORITY) and pad > 0 and pad == rest) or
                                ((fl & F_PRIORITY) and rest - 5 < pad < rest)):
            f.quirk = ('hyperframe 6.1 compares the pad length with the payload before the priority fields are taken off: '
                       'it refuses an empty fragment with maximal padding and accepts padding that overlaps the priority fields')
        if fl & F_PRIORITY:
            if len(body) < 5:
                f.bad = f.bad or ('size', 'HEADERS priority fields truncated')
                f.fragment = b''
                return
            dep, w = struct.unpack('>IB', body[:5])
            f.prio = (dep & 0x7fffffff, bool(dep >> 31), w)
            body = body[5:]
        if pad > len(body):
            f.bad = f.bad or ('proto', 'padding longer than payload')
            f.fragment = b''
            return
        f.fragment = bytes(body[:len(body) - pad])
    elif t == PRIORITY:
        if f.sid == 0:
            f.bad = ('proto', 'PRIORITY on stream 0')
        if n != 5:
            f.bad = ('size', 'PRIORITY length != 5')
            return
        dep, w = struct.unpack('>IB', p)
        f.prio = (dep & 0x7fffffff, bool(dep >> 31), w)
    elif t == RST_STREAM:
        if f.sid == 0:
            f.bad = ('proto', 'RST_STREAM on stream 0')
        if n != 4:
            f.bad = ('size', 'RST_STREAM length != 4')
            return
        f.error_code = struct.unpack('>I', p)[0]
    elif t == SETTINGS:
        if f.sid != 0:
            f.bad = ('proto', 'SETTINGS on a stream')
        if fl & F_ACK and n != 0:
            f.bad = ('size', 'SETTINGS ACK with payload')
            return
        if n % 6:
            f.bad = ('size', 'SETTINGS length not a multiple of 6')
            return
        f.settings = [struct.unpack('>HI', p[i:i + 6]) for i in range(0, n, 6)]
        if len(set(k for k, _ in f.settings)) != len(f.settings):
            f.quirk = 'hyperframe 6.1 keeps only the last value of a setting repeated in one frame'
    elif t == PUSH_PROMISE:
        if f.sid == 0:
            f.bad = ('proto', 'PUSH_PROMISE on stream 0')
        r = strip_padding(p)
        if r is None:
            return
        body, pad = r
        if len(body) < 4:
            f.bad = f.bad or ('size', 'PUSH_PROMISE truncated')
            f.fragment = b''
            return
        raw = struct.unpack('>I', body[:4])[0]
        if raw >> 31:
            f.quirk = 'hyperframe 6.1 does not mask the reserved bit of the promised stream id'
        f.promised = raw & 0x7fffffff
        if (fl & F_PADDED) and len(body) - 4 < pad < len(body):
            f.quirk = 'hyperframe 6.1 accepts PUSH_PROMISE padding that overlaps the promised stream id'
        body = body[4:]
        if pad > len(body):
            f.bad = f.bad or ('proto', 'padding longer than payload')
            f.fragment = b''
            return
        f.fragment = bytes(body[:len(body) - pad])
    elif t == PING:
        if f.sid != 0:
            f.bad = ('proto', 'PING on a stream')
        if n != 8:
            f.bad = ('size', 'PING length != 8')
            return
        f.opaque = bytes(p)
    elif t == GOAWAY:
        if f.sid != 0:
            f.bad = ('proto', 'GOAWAY on a stream')
        if n < 8:
            f.bad = ('size', 'GOAWAY shorter than 8')
            return
        last, code = struct.unpack('>II', p[:8])
        f.last_sid = last & 0x7fffffff
        f.error_code = code
        f.debug = bytes(p[8:])
    elif t == WINDOW_UPDATE:
        if n != 4:
            f.bad = ('size', 'WINDOW_UPDATE length != 4')
            return
        raw = struct.unpack('>I', p)[0]
        if raw >> 31:
            f.quirk = 'hyperframe 6.1 does not mask the reserved bit of WINDOW_UPDATE'
        f.increment = raw & 0x7fffffff
        if f.increment == 0:
            f.bad = ('proto', 'WINDOW_UPDATE increment 0')
    elif t == CONTINUATION:
        if f.sid == 0:
            f.bad = ('proto', 'CONTINUATION on stream 0')
        f.fragment = bytes(p)
    elif t == ALTSVC:
        if n < 2:
            f.bad = ('size', 'ALTSVC shorter than 2')
            return
        olen = struct.unpack('>H', p[:2])[0]
        if 2 + olen > n:
            f.bad = ('size', 'ALTSVC origin length beyond payload')
            return
        f.origin = bytes(p[2:2 + olen])
        f.field = bytes(p[2 + olen:])
    # unknown types: nothing to parse


NEEDS_STREAM = (DATA, HEADERS, PRIORITY, RST_STREAM, PUSH_PROMISE, CONTINUATION)
NEEDS_ZERO = (SETTINGS, PING, GOAWAY)


def all_problems(f):
    """Every independent well-formedness problem of the frame (categories)."""
    cats = set()
    if f.bad is not None:
        cats.add(f.bad[0])
    if (f.type in NEEDS_STREAM and f.sid == 0) or (f.type in NEEDS_ZERO and f.sid != 0):
        cats.add('proto')
    for cat, _ in f.problems:
        cats.add(cat)
    return cats


def parse_frame(buf, pos=0):
    """Parse one frame at buf[pos:]. Returns (frame, newpos) or (None, pos)
    when incomplete. Never raises."""
    if len(buf) - pos < 9:
        return None, pos
    length = (buf[pos] << 16) | (buf[pos + 1] << 8) | buf[pos + 2]
    if len(buf) - pos < 9 + length:
        return None, pos
    t = buf[pos + 3]
    fl = buf[pos + 4]
    sid = struct.unpack('>I', bytes(buf[pos + 5:pos + 9]))[0]
    f = Frame(t, fl, sid & 0x7fffffff, bytes(buf[pos + 9:pos + 9 + length]))
    f.rbit = sid >> 31
    parse_payload(f)
    return f, pos + 9 + length


def frame_header_len(buf, pos=0):
    """(length) of the frame whose header starts at pos, or None if <9 bytes."""
    if len(buf) - pos < 9:
        return None
    return (buf[pos] << 16) | (buf[pos + 1] << 8) | buf[pos + 2]


# ---- builders (for adversary / faults / expectations) ---------------------

def mk(type_, flags=0, sid=0, payload=b''):
    f = Frame(type_, flags, sid, bytes(payload))
    parse_payload(f)
    return f


def mk_data(sid, data=b'', end_stream=False, pad=None):
    fl = (F_END_STREAM if end_stream else 0)
    p = data
    if pad is not None:
        fl |= F_PADDED
        p = bytes([pad]) + data + bytes(pad)
    return mk(DATA, fl, sid, p)


def mk_headers(sid, fragment, end_stream=False, end_headers=True, prio=None, pad=None):
    fl = (F_END_STREAM if end_stream else 0) | (F_END_HEADERS if end_headers else 0)
    p = b''
    if prio is not None:
        fl |= F_PRIORITY
        dep, excl, w = prio
        p += struct.pack('>IB', (dep & 0x7fffffff) | (0x80000000 if excl else 0), w)
    p += fragment
    if pad is not None:
        fl |= F_PADDED
        p = bytes([pad]) + p + bytes(pad)
    return mk(HEADERS, fl, sid, p)


def mk_continuation(sid, fragment, end_headers=True):
    return mk(CONTINUATION, F_END_HEADERS if end_headers else 0, sid, fragment)


def mk_priority(sid, dep, excl, w):
    return mk(PRIORITY, 0, sid, struct.pack('>IB', (dep & 0x7fffffff) | (0x80000000 if excl else 0), w))


def mk_rst(sid, code):
    return mk(RST_STREAM, 0, sid, struct.pack('>I', code & 0xffffffff))


def mk_settings(pairs=(), ack=False):
    return mk(SETTINGS, F_ACK if ack else 0, 0, b''.join(struct.pack('>HI', k & 0xffff, v & 0xffffffff) for k, v in pairs))


def mk_push_promise(sid, promised, fragment, end_headers=True, pad=None):
    fl = F_END_HEADERS if end_headers else 0
    p = struct.pack('>I', promised & 0x7fffffff) + fragment
    if pad is not None:
        fl |= F_PADDED
        p = bytes([pad]) + p + bytes(pad)
    return mk(PUSH_PROMISE, fl, sid, p)


def mk_ping(opaque, ack=False):
    return mk(PING, F_ACK if ack else 0, 0, opaque)


def mk_goaway(last_sid, code, debug=b''):
    return mk(GOAWAY, 0, 0, struct.pack('>II', last_sid & 0x7fffffff, code & 0xffffffff) + debug)


def mk_window_update(sid, inc):
    return mk(WINDOW_UPDATE, 0, sid, struct.pack('>I', inc & 0x7fffffff))


def mk_altsvc(sid, origin, field):
    return mk(ALTSVC, 0, sid, struct.pack('>H', len(origin)) + origin + field)
