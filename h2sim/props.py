"""Per-property check specifications: monitors, profiles, budgets, evidence text."""
import importlib


class Spec:
    def __init__(self, prop, monitor_names, quick, thorough, rule, assumptions=(), overrides=None,
                 budget=(150, 1500), avoid=()):
        self.prop = prop
        self.monitor_names = monitor_names
        self.quick = quick
        self.thorough = thorough
        self.rule = rule
        self.assumptions = list(assumptions) + COMMON_ASSUMPTIONS
        self._overrides = overrides or {}
        self._budget = budget
        self.avoid = set(avoid)

    def monitors(self):
        out = []
        for name in self.monitor_names:
            modname, cls = name.split(':')
            mod = importlib.import_module('h2sim.monitors.' + modname)
            out.append(getattr(mod, cls)())
        return out

    def overrides(self, profile):
        return self._overrides.get(profile) or self._overrides.get('*')

    def avoid_for(self, sd, opts):
        """Finding triggers steered around in this run (avoidance hints).  One
        run in ten is a confirmation run for this property's own findings."""
        av = set(opts.get('avoid_all', ()))
        if (sd >> 5) % 10 == 0:
            av -= set(opts.get('avoid_own', ()))
        return av

    def plan(self, tier):
        return list(self.quick if tier == 'quick' else self.thorough)

    def budget(self, tier):
        return self._budget[0] if tier == 'quick' else self._budget[1]


COMMON_ASSUMPTIONS = [
    'sampled exploration: a clean batch is evidence, not proof',
    'hyperframe 6.1.0 / hpack 4.2.0 as installed are outside the defect scope',
    'oracle codec, reference HPACK decoder and wire tracker are correct (self-tested at setup)',
    'CPython 3.12 random.Random (Mersenne Twister) is deterministic for a given seed',
]

SPECS = {}


def reg(spec):
    SPECS[spec.prop] = spec


reg(Spec('C17', ['c17:C17'],
         quick=[('CORRUPT', 1500), ('ADV', 1500), ('DUPLEX', 500), ('HDR', 500)],
         thorough=[('CORRUPT', 40000), ('ADV', 40000), ('DUPLEX', 10000), ('HDR', 10000)],
         rule='one evaluation = one simulated two-endpoint run (seeded workload + schedule + faults); '
              'non-trivial = at least one receive_data call on a direction that a byte/frame fault or the adversary '
              'had touched; distinct = distinct abstract traces (hash of per-step op/frame-type/outcome/event-type sequence)'))
