"""Setup-time self-tests of the trusted oracle base and of the simulator's
determinism.  Exit 0 iff everything holds."""
import hashlib
import os
import random
import subprocess
import sys


def hpack_vectors():
    from .hpackref import RefDecoder
    d = RefDecoder()
    out, _ = d.decode(bytes.fromhex('828684418cf1e3c2e5f23a6ba0ab90f4ff'))
    assert [(n, v) for n, v, m in out] == [(b':method', b'GET'), (b':scheme', b'http'), (b':path', b'/'),
                                           (b':authority', b'www.example.com')], out
    out, _ = d.decode(bytes.fromhex('828684be5886a8eb10649cbf'))
    assert [(n, v) for n, v, m in out][-1] == (b'cache-control', b'no-cache'), out
    out, _ = d.decode(bytes.fromhex('828785bf408825a849e95ba97d7f8925a849e95bb8e8b4bf'))
    assert [(n, v) for n, v, m in out][-1] == (b'custom-key', b'custom-value'), out
    # C.6 response examples with eviction (table size 256)
    d = RefDecoder(256)
    out, _ = d.decode(bytes.fromhex('488264025885aec3771a4b6196d07abe941054d444a8200595040b8166e082a62d1bff6e919d29ad171863c78f0b97c8e9ae82ae43d3'))
    assert out[0][:2] == (b':status', b'302') and out[3][:2] == (b'location', b'https://www.example.com'), out
    out, _ = d.decode(bytes.fromhex('4883640effc1c0bf'))
    assert [(n, v) for n, v, m in out][0] == (b':status', b'307'), out
    return 5


def hpack_differential(n=300):
    from hpack import Encoder, Decoder, HeaderTuple, NeverIndexedHeaderTuple
    from .hpackref import RefDecoder, RefEncoder
    rng = random.Random(1)
    blocks = 0
    for trial in range(n):
        e = Encoder()
        r = RefDecoder()
        hd = Decoder()
        for blk in range(rng.randrange(1, 10)):
            if rng.random() < .2:
                e.header_table_size = rng.choice([0, 30, 60, 100, 4096])
            hs = []
            for i in range(rng.randrange(1, 10)):
                nm = rng.choice([b':method', b'x-a', b'cookie', b'x-long-name-%d' % rng.randrange(3),
                                 bytes(rng.randrange(97, 123) for _ in range(rng.randrange(1, 8)))])
                v = rng.choice([b'GET', b'', bytes(rng.randrange(256) for _ in range(rng.randrange(0, 40))),
                                b'v%d' % rng.randrange(4)])
                cls = NeverIndexedHeaderTuple if rng.random() < .2 else HeaderTuple
                hs.append(cls(nm, v))
            blob = e.encode(hs, huffman=rng.random() < .7)
            out, up = r.decode(blob)
            ref = hd.decode(blob, raw=True)
            assert [(a, b) for a, b, m in out] == [tuple(h) for h in hs] == [tuple(h) for h in ref], (hs, out)
            for (a, b, m), h in zip(out, hs):
                if isinstance(h, NeverIndexedHeaderTuple):
                    assert m in ('never', 'indexed'), (m, h)
            blocks += 1
    # own encoder against hpack's decoder
    e2 = RefEncoder()
    hd = Decoder()
    for i in range(300):
        hs = [(rng.choice([b':method', b'x-a', b'cookie', b'abc']),
               bytes(rng.randrange(256) for _ in range(rng.randrange(0, 20)))) for _ in range(rng.randrange(1, 8))]
        b = e2.encode(hs, rng)
        assert [tuple(x) for x in hd.decode(b, raw=True)] == hs
        blocks += 1
    return blocks


def codec_differential(n=3000):
    """Own frame codec against hyperframe on random well-formed frames."""
    from hyperframe import frame as hf
    from . import codec as C
    rng = random.Random(2)
    count = 0
    for i in range(n):
        k = rng.randrange(10)
        sid = rng.choice([1, 3, 2, 2 ** 31 - 1, 77])
        if k == 0:
            data = bytes(rng.randrange(256) for _ in range(rng.randrange(0, 50)))
            pad = rng.choice([None, 0, 3, 255])
            f = hf.DataFrame(sid, data)
            if pad is not None:
                f.flags.add('PADDED')
                f.pad_length = pad
            if rng.random() < .5:
                f.flags.add('END_STREAM')
            mine = C.mk_data(sid, data, 'END_STREAM' in f.flags, pad)
        elif k == 1:
            frag = bytes(rng.randrange(256) for _ in range(rng.randrange(0, 50)))
            f = hf.HeadersFrame(sid, frag)
            prio = None
            if rng.random() < .5:
                f.flags.add('PRIORITY')
                f.depends_on = rng.randrange(2 ** 31)
                f.stream_weight = rng.randrange(256)
                f.exclusive = rng.random() < .5
                prio = (f.depends_on, f.exclusive, f.stream_weight)
            f.flags.add('END_HEADERS')
            mine = C.mk_headers(sid, frag, False, True, prio)
        elif k == 2:
            f = hf.PriorityFrame(sid)
            f.depends_on = rng.randrange(2 ** 31)
            f.stream_weight = rng.randrange(256)
            f.exclusive = rng.random() < .5
            mine = C.mk_priority(sid, f.depends_on, f.exclusive, f.stream_weight)
        elif k == 3:
            code = rng.randrange(2 ** 32)
            f = hf.RstStreamFrame(sid, code)
            mine = C.mk_rst(sid, code)
        elif k == 4:
            pairs = [(rng.randrange(1, 9), rng.randrange(2 ** 32)) for _ in range(rng.randrange(0, 5))]
            d = {}
            for a, b in pairs:
                d[a] = b
            f = hf.SettingsFrame(0, settings=d)
            mine = C.mk_settings(list(d.items()))
        elif k == 5:
            frag = bytes(rng.randrange(256) for _ in range(rng.randrange(0, 50)))
            prom = rng.randrange(2, 2 ** 31, 2)
            f = hf.PushPromiseFrame(sid, prom, frag)
            f.flags.add('END_HEADERS')
            mine = C.mk_push_promise(sid, prom, frag)
        elif k == 6:
            op = bytes(rng.randrange(256) for _ in range(8))
            f = hf.PingFrame(0, op)
            ack = rng.random() < .5
            if ack:
                f.flags.add('ACK')
            mine = C.mk_ping(op, ack)
        elif k == 7:
            last = rng.randrange(2 ** 31)
            code = rng.randrange(2 ** 32)
            dbg = bytes(rng.randrange(256) for _ in range(rng.randrange(0, 9)))
            f = hf.GoAwayFrame(0, last, code, dbg)
            mine = C.mk_goaway(last, code, dbg)
        elif k == 8:
            inc = rng.randrange(1, 2 ** 31)
            s0 = rng.choice([0, sid])
            f = hf.WindowUpdateFrame(s0, inc)
            mine = C.mk_window_update(s0, inc)
        else:
            origin = bytes(rng.randrange(256) for _ in range(rng.randrange(0, 9)))
            field = bytes(rng.randrange(256) for _ in range(rng.randrange(0, 9)))
            s0 = rng.choice([0, sid])
            f = hf.AltSvcFrame(s0, origin, field)
            mine = C.mk_altsvc(s0, origin, field)
        ser = f.serialize()
        assert ser == mine.serialize(), (k, ser, mine.serialize())
        g, pos = C.parse_frame(ser)
        assert pos == len(ser) and g.bad is None, (k, g.bad)
        if k == 0:
            assert g.data == data and g.length == f.flow_controlled_length
        if k in (1, 5):
            assert g.fragment == frag
        count += 1
    return count


def digest_runs(seeds, profile='DUPLEX'):
    from .gen import Gen
    from .world import enc
    import json
    h = hashlib.sha256()
    for sd in seeds:
        g = Gen(sd, profile, [])
        # what-if branches are part of the run: their traces must be as repeatable as the main line
        g.branch_cb = lambda b: h.update(json.dumps(enc(b.w.trace[-12:]), sort_keys=True).encode())
        w = g.run()
        h.update(json.dumps(enc(w.trace), sort_keys=True).encode())
        for s in w.steps:
            h.update(repr((s.ep, s.kind, s.op, s.ok, (s.exc or {}).get('type'), (s.exc or {}).get('code'))).encode())
            h.update(s.out)
            if s.events is not None:
                h.update(repr([(e['t'], sorted((k, repr(v)) for k, v in e.items())) for e in s.events]).encode())
    return h.hexdigest()


def determinism(nseeds=60):
    """Same seeds twice in-process, and once more in fresh interpreters under
    other PYTHONHASHSEED values: digests of traces, outputs, events must agree."""
    profiles = ['DUPLEX', 'RACE', 'HDR', 'CORRUPT', 'ADV']
    n = 0
    for p in profiles:
        seeds = list(range(1000, 1000 + nseeds))
        a = digest_runs(seeds, p)
        b = digest_runs(seeds, p)
        assert a == b, 'in-process nondeterminism in profile %s' % p
        for hs in ('7', '4242'):
            env = dict(os.environ)
            env['PYTHONHASHSEED'] = hs
            code = ('import sys; sys.path.insert(0, %r); sys.path.insert(0, "/repo/src"); '
                    'from h2sim import selftest; print(selftest.digest_runs(list(range(1000, %d)), %r))'
                    % (os.path.dirname(os.path.dirname(os.path.abspath(__file__))), 1000 + nseeds, p))
            r = subprocess.run([sys.executable, '-c', code], env=env, capture_output=True, text=True, timeout=600)
            assert r.returncode == 0, r.stderr[-2000:]
            assert r.stdout.strip() == a, 'digest differs under PYTHONHASHSEED=%s in profile %s' % (hs, p)
        n += nseeds
    return n


def replay_roundtrip(n=40):
    """A run and the replay of its trace after a JSON round trip (what a replay file holds) are the same execution:
    argument types (bytes / bytearray / str / int / None / lists) must survive the encoding."""
    import json
    from .gen import Gen
    from .world import enc, dec, run_trace
    from .branch_audit import world_digest
    cnt = 0
    for profile in ('DUPLEX', 'MISUSE', 'HDR', 'ADV', 'FLOW', 'UPGRADE'):
        for sd in range(3000, 3000 + n):
            g = Gen(sd, profile, [], overrides={'fork': 0.0, 'misuse': 0.3})
            w = g.run()
            a = world_digest(w, [])
            ev = dec(json.loads(json.dumps(enc(w.trace))))
            cfg = dec(json.loads(json.dumps(enc(g.cfg))))
            w2 = run_trace(cfg, ev, [])
            assert world_digest(w2, []) == a, 'replay of the encoded trace differs from the run (%s seed %d)' % (profile, sd)
            cnt += 1
    return cnt


def main():
    print('hpack RFC 7541 vectors:', hpack_vectors())
    print('hpack differential blocks:', hpack_differential())
    print('codec differential frames:', codec_differential())
    print('determinism seeds (x2 in-process, x2 fresh interpreters):', determinism())
    from . import branch_audit
    tot = 0
    for prop, profile in (('C06', 'ADV'), ('C17', 'CORRUPT'), ('C18', 'ADV')):
        c, b = branch_audit.audit(prop, profile, 30)
        assert b == 0, 'a what-if branch differs from the from-scratch replay of its trace (%s %s)' % (prop, profile)
        tot += c
    print('what-if branches equal to from-scratch replays of their traces:', tot)
    print('runs equal to the replay of their JSON-encoded trace:', replay_roundtrip())
    print('selftest ok')
    return 0
