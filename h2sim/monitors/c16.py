"""C16 - Content-Length is enforced as RFC 7540 section 8.1.2.6 requires."""
from .base import Monitor
from .. import codec as C
from ..hdrnorm import conformant
from ..model import NONE, INFO, FINAL, TRAILERS, is_info


def parse_cl(wire):
    vals = [v for n, v in wire if n == b'content-length']
    if not vals:
        return None, True
    try:
        n = int(vals[0].decode('ascii'), 10)
    except (ValueError, UnicodeDecodeError):
        return None, False
    if n < 0 or vals[0].strip() != vals[0] or not vals[0].isdigit():
        return None, False
    if len(set(vals)) > 1:
        return None, False
    return n, True


class C16(Monitor):
    prop = 'C16'
    name = 'content-length'

    def start(self, w):
        self.msg = {'c': {}, 's': {}}       # ep -> sid -> {'cl','total','nocontent'}

    def on_step(self, w, s):
        if s.kind != 'recv' or s.snap['closed'] or s.quirk or not s.units:
            return
        single = s.exact
        if not single and not s.ok:
            return      # burst that raised: culprit unknown, connection dead anyway
        for i, f in enumerate(s.units):
            self._unit(w, s, f, s.pre[i], single, s.rejected[i] if i < len(s.rejected) else False)

    def _unit(self, w, s, f, pre, single, rej):
        e = w.eps[s.ep]
        trk = e.trk
        client = e.client
        cfg = w.cfg[s.ep]
        mine = s.snap['mine']
        msgs = self.msg[s.ep]
        if f.bad or f.length > mine[C.S_MAX_FRAME_SIZE]:
            return
        rejected = (not s.ok) or rej or (single and any(x.type == C.RST_STREAM and x.sid == f.sid for x in s.out_frames))
        bodyerr = single and (not s.ok) and s.exc['type'] == 'InvalidBodyLengthError'
        if f.type == C.HEADERS:
            if f.block_frames is None or f.hpack_error or f.headers is None:
                return
            wire = [(n, v) for n, v, _ in f.headers]
            cl, cl_ok = parse_cl(wire)
            # which message part is this, by the receiver's stream state
            if pre is None:
                if client or trk.is_mine(f.sid) or f.sid <= s.snap['hi_peer']:
                    return
                part = 'request'
            elif pre.state == 'rsvR':
                part = 'info' if is_info(wire) else 'response'
            elif pre.state in ('open', 'hcL'):
                cs = (pre.mine and not pre.pushed) or (pre.pushed and not pre.mine)
                if cs and pre.recv in (NONE, INFO):
                    part = 'info' if is_info(wire) else 'response'
                elif pre.recv == FINAL:
                    part = 'trailers'
                else:
                    return
            else:
                return
            if part == 'info':
                return          # an informational response has no body and its content-length concerns nothing
            if part in ('request', 'response'):
                if not cl_ok:
                    return
                nocontent = False
                if part == 'response':
                    status = dict(wire).get(b':status', b'')
                    nocontent = (pre.req_method == b'HEAD') or status in (b'204', b'304')
                m = {'cl': cl, 'total': 0, 'nocontent': nocontent, 'valid': conformant(wire, part) is None}
                if not rejected:
                    msgs[f.sid] = m
                if cl is not None:
                    self.probe('declared_length')
                if not f.end_stream:
                    return
                self.probe('end_on_headers')
                self.nontrivial = True
                must_reject = (not nocontent) and cl is not None and cl != 0
                self._judge(s, f, m, must_reject, rejected, bodyerr, 'END_STREAM on HEADERS')
                return
            # trailers end the message
            m = msgs.get(f.sid)
            if m is None or not f.end_stream:
                return
            self.probe('end_on_trailers')
            self.nontrivial = True
            must_reject = (not m['nocontent']) and m['cl'] is not None and m['total'] != m['cl']
            if m['nocontent']:
                must_reject = False
            self._judge(s, f, m, must_reject, rejected, bodyerr, 'END_STREAM on trailers')
            return
        if f.type != C.DATA:
            return
        m = msgs.get(f.sid)
        if m is None or pre is None or pre.state not in ('open', 'hcL') or pre.recv != FINAL:
            return
        # flow control first (C04)
        if f.fc_len and (f.fc_len > s.snap['conn_recv'] or f.fc_len > pre.recv_win):
            return
        n = len(f.data or b'')
        total = m['total'] + n
        if f.pad is not None:
            self.probe('padded_data')
        if m['nocontent']:
            must_reject = total > 0
        else:
            must_reject = m['cl'] is not None and (total > m['cl'] or (f.end_stream and total != m['cl']))
        if f.end_stream:
            self.probe('end_on_data')
        self._judge(s, f, m, must_reject, rejected, bodyerr, 'DATA%s' % (' with END_STREAM' if f.end_stream else ''), total)
        if not rejected:
            m['total'] = total

    def _judge(self, s, f, m, must_reject, rejected, bodyerr, where, total=None):
        total = m['total'] if total is None else total
        if len(s.units) != 1:
            # bursts: a mismatch that went through is still visible (the whole call succeeded)
            if must_reject and s.ok and not rejected:
                self.fail('mismatch-accepted', 'body length mismatch accepted at %s' % where, s,
                          declared=m['cl'], received=total, nocontent=m['nocontent'])
            return
        if must_reject and not rejected:
            self.fail('mismatch-accepted', 'body length mismatch accepted at %s' % where, s,
                      declared=m['cl'], received=total, nocontent=m['nocontent'])
        elif not must_reject and bodyerr:
            self.fail('match-rejected', 'matching / permitted body length rejected at %s' % where, s,
                      declared=m['cl'], received=total, nocontent=m['nocontent'])
