"""C02 - emitted bytes are well-formed HTTP/2 that encode exactly the calls."""
from .base import Monitor
from .. import codec as C

AUTO_TYPES = (C.SETTINGS, C.PING, C.RST_STREAM, C.WINDOW_UPDATE, C.GOAWAY)


class C02(Monitor):
    prop = 'C02'
    name = 'wire-format'

    def start(self, w):
        self.first_seen = {'c': False, 's': False}

    def on_step(self, w, s):
        e = w.eps[s.ep]
        if not s.out:
            if s.kind == 'call' and s.ok:
                self._spec(w, e, s)
            return
        tap = e.out_tap
        if tap.preface_bad:
            self.fail('preface', 'client output does not start with the preface', s)
            return
        frames = s.out_frames
        if frames and not self.first_seen[s.ep]:
            self.first_seen[s.ep] = True
            f0 = frames[0]
            if f0.type != C.SETTINGS or f0.ack or f0.offset != (24 if e.client else 0):
                self.fail('first-frame', 'first frame is not SETTINGS right after the preface', s, frame=f0.brief())
        if tap.buf:
            self.fail('partial-frame', 'step output ends inside a frame', s)
        pre_limit = s.snap['peer'][C.S_MAX_FRAME_SIZE]
        post_limit = e.trk.peer[C.S_MAX_FRAME_SIZE]
        limit = pre_limit if s.kind == 'call' else max(pre_limit, post_limit)
        for f in frames:
            if f.type > C.ALTSVC:
                self.fail('unknown-type', 'frame type %d emitted' % f.type, s)
            if f.bad is not None:
                self.fail('malformed', '%s: %s' % (f.name, f.bad[1]), s, frame=f.brief())
            if f.length > limit:
                self.probe('oversize')
                self.fail('oversize', '%s payload exceeds peer MAX_FRAME_SIZE' % f.name, s,
                          length=f.length, limit=limit, op=s.op)
            if f.rbit:
                self.fail('reserved-bit', f.name, s)
            if f.type in (C.HEADERS, C.PUSH_PROMISE) and f.block_frames is not None and f.hpack_error:
                self.fail('undecodable-block', f.hpack_error, s)
            if f.type in (C.HEADERS, C.PUSH_PROMISE) and f.block_frames is not None:
                if len(f.block_frames) > 1:
                    self.probe('multi_fragment')
                    self.nontrivial = True
        if tap.in_block():
            self.fail('open-block', 'step output ends inside a header block', s)
        if s.kind == 'recv':
            for f in frames:
                if f.type not in AUTO_TYPES or (f.type in (C.SETTINGS, C.PING) and not f.ack):
                    self.fail('auto-frame', 'receive_data emitted %s' % f.name, s, frame=f.brief())
        elif s.ok:
            self._spec(w, e, s)

    # -- call -> frames specification ------------------------------------
    def _spec(self, w, e, s):
        op, a, fr = s.op, s.args or {}, s.out_frames

        def bad(detail, **kw):
            self.fail('call-spec', '%s: %s' % (op, detail), s, frames=[f.brief() for f in fr][:6], **kw)

        def block(first_type, sid):
            """frames must be first_type + CONTINUATION* on sid, END_HEADERS last only"""
            if not fr or fr[0].type != first_type:
                bad('first frame is not %s' % C.TYPE_NAMES[first_type])
                return False
            for i, f in enumerate(fr):
                if f.sid != sid:
                    bad('frame on stream %d, expected %d' % (f.sid, sid))
                    return False
                if i and f.type != C.CONTINUATION:
                    bad('non-CONTINUATION inside block')
                    return False
                if f.end_headers != (i == len(fr) - 1):
                    bad('END_HEADERS placement')
                    return False
                if f.type != C.CONTINUATION and f.pad is not None:
                    bad('unrequested padding')
                    return False
            return True

        if op == 'send_headers':
            sid = a['sid'] & 0xffffffff
            if not block(C.HEADERS, a['sid']):
                return
            f0 = fr[0]
            if f0.end_stream != bool(a.get('es')):
                bad('END_STREAM flag')
            want_prio = any(a.get(k) is not None for k in ('pw', 'pd', 'pe'))
            if want_prio:
                self.probe('priority_fields')
                self.nontrivial = True
                exp = (a.get('pd') if a.get('pd') is not None else 0,
                       bool(a.get('pe')) if a.get('pe') is not None else False,
                       (a.get('pw') if a.get('pw') is not None else 16) - 1)
                if f0.prio != exp:
                    bad('priority fields', got=f0.prio, want=exp)
            elif f0.prio is not None:
                bad('unrequested priority fields')
        elif op == 'push_stream':
            if not block(C.PUSH_PROMISE, a['sid']):
                return
            if fr[0].promised != a['promised']:
                bad('promised id', got=fr[0].promised)
        elif op == 'send_data':
            if len(fr) != 1 or fr[0].type != C.DATA:
                return bad('not exactly one DATA frame')
            f = fr[0]
            if f.sid != a['sid'] or f.data != bytes(a['data']) or f.end_stream != bool(a.get('es')):
                bad('DATA fields')
            if a.get('pad') is None:
                if f.pad is not None:
                    bad('unrequested padding')
            else:
                self.probe('padding')
                self.nontrivial = True
                if f.pad != a['pad'] or f.length != len(a['data']) + a['pad'] + 1:
                    bad('padding', got=f.pad)
        elif op == 'end_stream':
            if len(fr) != 1 or fr[0].type != C.DATA or fr[0].sid != a['sid'] or fr[0].length != 0 or not fr[0].end_stream:
                bad('not an empty DATA frame with END_STREAM')
        elif op == 'reset_stream':
            if len(fr) != 1 or fr[0].type != C.RST_STREAM or fr[0].sid != a['sid'] or fr[0].error_code != a.get('code', 0):
                bad('RST_STREAM fields')
        elif op == 'ping':
            if len(fr) != 1 or fr[0].type != C.PING or fr[0].ack or fr[0].opaque != a['data']:
                bad('PING fields')
        elif op == 'prioritize':
            exp = (a.get('pd') if a.get('pd') is not None else 0,
                   bool(a.get('pe')) if a.get('pe') is not None else False,
                   (a.get('pw') if a.get('pw') is not None else 16) - 1)
            if len(fr) != 1 or fr[0].type != C.PRIORITY or fr[0].sid != a['sid'] or fr[0].prio != exp:
                bad('PRIORITY fields', want=exp)
        elif op == 'increment_flow_control_window':
            sid = a.get('sid') or 0
            if len(fr) != 1 or fr[0].type != C.WINDOW_UPDATE or fr[0].sid != sid or fr[0].increment != a['inc']:
                bad('WINDOW_UPDATE fields')
        elif op == 'acknowledge_received_data':
            seen = set()
            for f in fr:
                if f.type != C.WINDOW_UPDATE or f.sid not in (0, a['sid']) or f.sid in seen:
                    bad('unexpected frame %s on %d' % (f.name, f.sid))
                seen.add(f.sid)
        elif op == 'update_settings':
            want = [(int(k), int(v)) for k, v in a['settings'].items()]
            if len(fr) != 1 or fr[0].type != C.SETTINGS or fr[0].ack or [tuple(x) for x in fr[0].settings] != want:
                bad('SETTINGS pairs', want=want)
        elif op == 'advertise_alternative_service':
            sid = a.get('sid') or 0
            origin = a.get('origin') or b''
            if len(fr) != 1 or fr[0].type != C.ALTSVC or fr[0].sid != sid or fr[0].origin != origin or fr[0].field != a['field']:
                bad('ALTSVC fields')
        elif op == 'close_connection':
            last = a.get('last')
            if last is None:
                last = s.snap['hi_peer']
            ok_last = ({last} | {x for x in s.snap['hi_peer_maybe'] if x > last}) if a.get('last') is None else {last}
            if len(fr) != 1 or fr[0].type != C.GOAWAY or fr[0].error_code != a.get('code', 0) or \
                    fr[0].debug != (a.get('debug') or b'') or fr[0].last_sid not in ok_last:
                bad('GOAWAY fields', want_last=last)
        elif op in ('initiate_connection', 'initiate_upgrade_connection'):
            if len(fr) != 1 or fr[0].type != C.SETTINGS or fr[0].ack:
                bad('not exactly one SETTINGS frame')
        elif op in ('open_outbound_streams', 'open_inbound_streams', 'local_flow_control_window',
                    'remote_flow_control_window', 'get_next_available_stream_id', 'remote_settings',
                    'local_settings', 'clear_outbound_data_buffer', 'set_local_settings'):
            if fr:
                bad('query emitted frames')

    def finish(self, w):
        """Partial reads: the byte stream handed out through arbitrary data_to_send(amount) calls interleaved
        with the other calls must still be a well-formed frame sequence (lazy-read twin)."""
        if self.violations:
            return
        from .. import twins
        from ..tap import Tap
        for ep in ('c', 's'):
            e = w.eps[ep]
            if any(f.type == C.GOAWAY for s in e.log if s.kind == 'recv' for f in s.in_frames) or not e.log or any(s.kind == 'call' and s.op == 'clear_outbound_data_buffer' for s in e.log):
                continue
            lazy, bad = twins.run_lazy(w, ep, twins.twin_rng(w, ep, 'lazy-c02'))
            tap = Tap(expect_preface=e.client)
            frames = tap.feed(lazy)
            self.probe('lazy_read_parsed')
            problem = None
            if tap.preface_bad:
                problem = 'output does not start with the client preface'
            elif tap.buf:
                problem = 'output ends inside a frame'
            elif tap.in_block():
                problem = 'output ends inside a header block'
            else:
                for f in frames:
                    if f.bad is not None:
                        problem = '%s: %s' % (f.name, f.bad[1])
                        break
                    if f.type in (C.HEADERS, C.PUSH_PROMISE) and f.block_frames is not None and f.hpack_error:
                        problem = 'undecodable header block'
                        break
            if problem:
                self.fail('partial-read-stream', 'bytes taken with partial data_to_send(amount) reads do not form valid frames: %s' % problem,
                          None, endpoint=ep)
                return
