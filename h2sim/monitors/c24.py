"""C24 - alternative-service advertisements follow the RFC 7838 rules."""
from .base import Monitor
from .. import codec as C
from ..model import NONE, INFO, FINAL, TRAILERS


class C24(Monitor):
    prop = 'C24'
    name = 'altsvc'

    def start(self, w):
        self.poison = {'c': set(), 's': set()}

    def on_step(self, w, s):
        e = w.eps[s.ep]
        client = e.client
        if s.kind == 'call':
            try:
                if s.op == 'advertise_alternative_service':
                    self._call(w, e, s)
            finally:
                if not s.ok and s.exc['proto'] and s.exc['where'] and \
                        (s.exc['where'].endswith('process_input') or s.exc['where'].startswith('stream.')):
                    sid = (s.args or {}).get('sid')
                    self.poison[s.ep].add(sid if (s.exc['where'].startswith('stream') and sid is not None) else 'conn')
            return
        if s.snap['closed'] or not s.exact or s.quirk:
            return
        f = s.units[0]
        if f.type != C.ALTSVC or f.bad is not None or f.length > s.snap['mine'][C.S_MAX_FRAME_SIZE]:
            return
        self.probe('altsvc_delivered')
        if s.tainted:
            self.nontrivial = True
        if not s.ok:
            self.fail('altsvc-error', 'an ALTSVC frame caused %s' % s.exc['type'], s, sid=f.sid)
            return
        got = [ev for ev in s.events if ev['t'] == 'AlternativeServiceAvailable']
        if len(got) != len(s.events):
            self.fail('altsvc-other-events', 'ALTSVC frame produced other events', s, events=[ev['t'] for ev in s.events])
            return
        if s.out:
            self.fail('altsvc-answered', 'ALTSVC frame made the endpoint emit frames', s)
        pre = s.pre[0]
        want = None
        if client:
            if f.sid == 0:
                if f.origin:
                    want = (f.origin, f.field)
            elif not f.origin and pre is not None and pre.state in ('open', 'hcL', 'rsvR') and \
                    (pre.mine or pre.pushed) and pre.recv in (NONE, INFO):
                if pre.state == 'rsvR' and pre.recv == INFO:
                    return
                want = (pre.authority, f.field)
        if want is None:
            if got:
                self.fail('altsvc-not-ignored', 'an ALTSVC frame that must be ignored produced an event', s,
                          client=client, sid=f.sid, origin=f.origin, state=pre.state if pre else None,
                          recv=pre.recv if pre else None)
            return
        if len(got) != 1 or (got[0]['origin'], got[0]['field_value']) != want:
            self.fail('altsvc-event', 'AlternativeServiceAvailable missing or with wrong origin/field', s,
                      got=[(g['origin'], g['field_value']) for g in got], want=want)

    def _call(self, w, e, s):
        a = s.args
        client = e.client
        field, origin, sid = a.get('field'), a.get('origin'), a.get('sid')
        if not isinstance(field, bytes) or (origin is not None and sid is not None):
            if s.ok:
                self.fail('bad-arguments-accepted', 'advertise_alternative_service accepted invalid arguments', s)
            return
        if s.snap['closed']:
            return
        pre = s.pre.get(sid) if isinstance(sid, int) else None
        if client:
            allowed = False
        elif origin is not None:
            allowed = True
        elif sid is None:
            return
        else:
            if pre is not None and pre.state == 'rsvL':
                return      # either
            allowed = pre is not None and not pre.mine and pre.state in ('open', 'hcR') and pre.sent in (NONE, INFO)
        self.probe('altsvc_call')
        if pre is not None and pre.state in ('hcR', 'closed') or client:
            self.nontrivial = True
        if s.ok and not allowed:
            self.fail('altsvc-accepted', 'advertise_alternative_service succeeded where RFC 7838 forbids it', s,
                      client=client, state=pre.state if pre else None, sent=pre.sent if pre else None)
        elif not s.ok and allowed:
            if 'conn' in self.poison[s.ep] or sid in self.poison[s.ep]:
                return
            self.fail('altsvc-refused', 'a permitted advertisement raised %s' % s.exc['type'], s, where=s.exc['where'])
        if not s.ok and s.out:
            self.fail('refused-altsvc-emitted', 'refused advertisement emitted bytes', s)
