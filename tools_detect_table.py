#!/venv/bin/python
"""Fold results of tools_mutants.py runs into seeded/<id>/meta.json and print the markdown table for DESIGN.md.
usage: tools_detect_table.py <result-file>...   (lines 'seeded:<id> <prop> DETECTED|MISSED ...' and
'seeded:<id> MARGIN property=<prop> tier=quick violating_runs=K unlisted=U of N')"""
import json, os, re, sys

rows = {}
for path in sys.argv[1:]:
    for line in open(path):
        m = re.match(r'seeded:(\S+) (C\d\d) (DETECTED|MISSED|ERROR\S*) \S+ ?(?:signature: )?(.*)', line)
        if m:
            sid, prop, st, sig = m.groups()
            d = rows.setdefault(sid, {}).setdefault(prop, {})
            d['quick'] = st
            if sig.strip():
                d['signature'] = sig.strip()[:200]
            continue
        m = re.match(r'seeded:(\S+) MARGIN property=(C\d\d) tier=(\w+) violating_runs=(\d+) unlisted=(\d+) of (\d+)', line)
        if m:
            sid, prop, tier, k, u, n = m.groups()
            if prop == 'C28':
                continue        # (C28 has its own runner: --margin does not apply to it)
            d = rows.setdefault(sid, {}).setdefault(prop, {})
            d['margin'] = '%s of %s runs violate (quick plan, VERIF_SEED=1)' % (u, n)
            d['margin_k'] = int(u)
for sid, byprop in sorted(rows.items()):
    mp = '/verif/seeded/%s/meta.json' % sid
    if not os.path.exists(mp):
        continue
    meta = json.load(open(mp))
    det = meta.setdefault('detection', {})
    for prop, d in byprop.items():
        det.setdefault(prop, {}).update({k: v for k, v in d.items() if k != 'margin_k'})
        if 'margin_k' in d:
            # the margin run executes exactly the quick plan: any violating run is what the check reports
            det[prop]['quick'] = 'DETECTED' if d['margin_k'] > 0 else 'MISSED'
    detectors = sorted(p for p, d in det.items() if d.get('quick') == 'DETECTED')
    meta['properties'] = sorted(set(meta.get('properties', [])) | set(detectors))
    meta['what_i_ran'] = ('git -C /repo apply seeded/%s/patch.diff; ./check <prop> --tier quick (and --margin: the same plan, counting '
                          'violating runs); git -C /repo checkout -- .   [tools_mutants.py seeded %s <prop>]' % (sid, sid))
    json.dump(meta, open(mp, 'w'), indent=1)
print('| change | owner check (quick) | violating runs in the quick plan | first signature |')
print('|---|---|---|---|')
for sid in sorted(os.listdir('/verif/seeded')):
    mp = '/verif/seeded/%s/meta.json' % sid
    if not os.path.exists(mp):
        continue
    meta = json.load(open(mp))
    det = meta.get('detection', {})
    owner = sid[:3]
    d = det.get(owner, {})
    others = [p for p in det if p != owner and det[p].get('quick') == 'DETECTED']
    sig = d.get('signature', '')
    m = re.search(r"\('C\d\d', '([^']+)', '([^']+)'", sig)
    print('| %s | %s%s | %s | %s |' % (sid, d.get('quick', '?'), (' (+' + ', '.join(others) + ')') if others else '',
                                     d.get('margin', '').split(' (')[0], ('%s/%s' % (m.group(1), m.group(2))) if m else ''))
