"""C06 - stream lifecycle follows the RFC 7540 section 5.1 state machine."""
from .base import Monitor
from .. import codec as C
from .. import rules
from ..hdrnorm import conformant, wire_expected
from ..model import NONE, INFO, FINAL, TRAILERS

MAXID = 2 ** 31 - 1
P = C.PROTOCOL_ERROR


def vmatch(v, r):
    if v[0] == 'either':
        return any(vmatch(x, r) for x in v[1:])
    return v == r


def vstr(v):
    if v[0] == 'either':
        return '|'.join(vstr(x) for x in v[1:])
    return v[0] + (':%s' % (v[1],) if len(v) > 1 else '')


class C06(Monitor):
    prop = 'C06'
    name = 'lifecycle'

    def start(self, w):
        self.knob = w.cfg['knobs'].get('MAX_CLOSED_STREAMS', 65536)
        self.fsm_refused = {'c': set(), 's': set()}
        self.cells = set()

    # -- received frames ---------------------------------------------------
    def on_step(self, w, s):
        e = w.eps[s.ep]
        trk = e.trk
        client = e.client
        if s.kind == 'call':
            return self._call(w, e, s)
        if s.snap['closed'] or not s.exact or s.quirk:
            return      # only steps with exactly one dispatch unit are judged (exact attribution)
        f = s.units[0]
        pre = s.pre[0]
        mine = s.snap['mine']
        # preconditions owned by other properties
        if f.bad is not None or f.length > mine[C.S_MAX_FRAME_SIZE]:
            return
        if f.type not in (C.HEADERS, C.DATA, C.RST_STREAM, C.WINDOW_UPDATE, C.PUSH_PROMISE, C.CONTINUATION):
            return
        if f.sid == 0:
            return      # connection-level frames: C03 / C11 / C26
        # streams that a refused call closed inside the library (open finding F-POISON) take up places in its memory of
        # closed streams without ever closing on the wire: the bound used for 'certainly remembered' shrinks by them
        knob = self.knob - sum(1 for x in self.fsm_refused[s.ep] if x != 'conn')
        v = rules.frame_verdict(trk, s.snap, pre, f, client, knob)
        if f.type in (C.HEADERS, C.PUSH_PROMISE):
            if f.block_frames is None or f.hpack_error or f.headers is None:
                return
            if len(f.block_frames) > w.cfg['knobs'].get('CONTINUATION_BACKLOG', 64):
                return      # CONTINUATION flood limit: C27
            for x in f.block_frames:
                if x.length > mine[C.S_MAX_FRAME_SIZE] or (x.bad is not None):
                    return
            lim = mine.get(C.S_MAX_HEADER_LIST_SIZE)
            if lim is not None and f.header_list_size > lim:
                return
            wire = [(n, v_) for n, v_, _ in f.headers]
            if any(n == b'content-length' for n, _ in wire):
                return
            if s.tainted and trk.table_size_changed:
                return      # the library's decoder may be waiting for a table-size update the adversary never sends
            if f.type == C.HEADERS and f.end_stream and rules.is_info(wire):
                return      # malformed whatever the state
            if not w.cfg[s.ep].get('validate_inbound', True):
                return
            enc = w.cfg[s.ep].get('header_encoding')
            if enc:
                try:
                    for n, v_ in wire:
                        n.decode(enc)
                        v_.decode(enc)
                except UnicodeDecodeError:
                    return
        if f.type == C.PUSH_PROMISE and client and not mine.get(C.S_ENABLE_PUSH, 1):
            v = ('conn', P)     # push disabled (acknowledged): a connection error whatever the parent's state (C22)
        if f.type == C.DATA and f.fc_len and f.fc_len > s.snap['conn_recv']:
            return          # beyond the connection window: a flow-control connection error whatever the stream state (C04)
        if v == rules.ACCEPT:
            if f.type == C.HEADERS:
                if pre is None:
                    lim = mine.get(C.S_MAX_CONCURRENT_STREAMS)
                    if lim is not None and s.snap['open_peer'] + 1 > lim:
                        return
                    kind = 'request'
                elif pre.state == 'rsvR':
                    lim = mine.get(C.S_MAX_CONCURRENT_STREAMS)
                    if lim is not None and s.snap['open_peer'] + 1 > lim:
                        return
                    kind = 'response'
                else:
                    cs = (pre.mine and not pre.pushed) or (pre.pushed and not pre.mine)
                    kind = 'response' if (cs and pre.recv in (NONE, INFO)) else 'trailers'
                k = rules.headers_kind_ok(pre, f, client)
                if k == 'either':
                    return
                if conformant(wire, kind) is not None:
                    return
                if k == 'bad':
                    v = rules.either(('conn', P), ('stream', P))
                if f.prio is not None and f.prio[0] == f.sid:
                    v = rules.either(('conn', P), ('stream', P))      # self-dependency (RFC 5.3.1)
                if kind == 'response' and pre is not None and pre.req_method == b'HEAD':
                    pass
            elif f.type == C.DATA:
                if f.fc_len > s.snap['conn_recv'] and f.fc_len:
                    return
                if pre.recv_win < f.fc_len and f.fc_len:
                    return
                if pre.recv_cl is not None or pre.req_method == b'HEAD' or pre.resp_status in (b'204', b'304'):
                    return
                cs = (pre.mine and not pre.pushed) or (pre.pushed and not pre.mine)
                if cs and pre.recv in (NONE, INFO):
                    v = rules.either(('conn', P), ('stream', P))
                elif pre.recv == TRAILERS:
                    v = rules.either(('conn', P), ('stream', P), ('conn', C.STREAM_CLOSED), ('stream', C.STREAM_CLOSED))
            elif f.type == C.WINDOW_UPDATE:
                pass
            elif f.type == C.PUSH_PROMISE:
                if not mine.get(C.S_ENABLE_PUSH, 1):
                    v = ('conn', P)
                else:
                    p = f.promised
                    if not p or p % 2 or p <= s.snap['hi_peer']:
                        # a promised id that is not new (RFC 7540 5.1.1, property C09): a stream error if that stream
                        # was reset, a STREAM_CLOSED connection error if it ended normally, else PROTOCOL_ERROR
                        pp = (s.pre_promised or [None])[0]
                        if conformant(wire, 'request') is not None or (pp is not None and pp.state == 'closed' and
                                                                       rules.maybe_forgotten(trk, pp, knob)):
                            v = rules.either(('conn', P), ('stream', P), ('stream', C.STREAM_CLOSED), ('conn', C.STREAM_CLOSED))
                        elif not p or p % 2:
                            v = ('conn', P)         # not an id a server can promise at all
                        elif pp is not None and pp.state == 'closed' and pp.closed_by in ('rst_sent', 'rst_recv'):
                            v = ('stream', C.STREAM_CLOSED)
                        elif pp is not None and pp.state == 'closed':
                            v = ('conn', C.STREAM_CLOSED)
                        else:
                            v = ('conn', P)
                    elif conformant(wire, 'request') is not None:
                        return
        if f.type == C.WINDOW_UPDATE and pre is not None and pre.state != 'closed' and pre.send_win + f.increment > MAXID:
            v = rules.either(('stream', C.FLOW_CONTROL_ERROR), ('conn', C.FLOW_CONTROL_ERROR))
        # what the library did
        if not s.ok:
            r = ('conn', s.exc['code'])
        else:
            rst = [x for x in s.out_frames if x.type == C.RST_STREAM and
                   (x.sid == f.sid or (f.type == C.PUSH_PROMISE and x.sid == f.promised))]
            if rst:
                r = ('stream', rst[0].error_code)
            elif s.events:
                r = ('accept',)
            else:
                r = ('ignore',)
        if v == rules.ACCEPT and f.type in (C.RST_STREAM, C.WINDOW_UPDATE) and r == ('ignore',):
            pass    # falls through to the mismatch below: accepted frames of these kinds produce an event
        state = pre.state + ('/' + pre.closed_by if pre is not None and pre.closed_by else '') if pre is not None else \
            ('idle' if (f.sid > (s.snap['hi_mine'] if trk.is_mine(f.sid) else s.snap['hi_peer'])) else 'skipped')
        cell = ('C' if client else 'S', state, f.name)
        if cell not in self.cells:
            self.cells.add(cell)
            self.probe('cell:%s/%s/%s' % cell)
        self.nontrivial = True
        if not vmatch(v, r):
            kind = 'frame-reaction'
            if f.type == C.HEADERS and pre is not None and pre.state == 'hcR' and f.headers is not None and \
                    rules.is_info([(n, v_) for n, v_, _ in f.headers]) and r == ('conn', P):
                kind = 'info-headers-after-end'
            if ('conn' in self.fsm_refused[s.ep]) or (f.sid in self.fsm_refused[s.ep]):
                kind = 'poisoned-by-refused-call'
            self.fail(kind, '%s %s in state %s: expected %s, got %s' % (
                'client' if client else 'server', f.name, state, vstr(v), vstr(r)), s,
                frame=f.brief())

    # -- local calls ---------------------------------------------------------
    def _call(self, w, e, s):
        try:
            self._call_inner(w, e, s)
        finally:
            a = s.args or {}
            if not s.ok and s.exc['proto'] and s.exc['where'] and \
                    (s.exc['where'].endswith('process_input') or s.exc['where'].startswith('stream.')):
                # refused by a state machine (or one of its side-effect functions): that closes it
                sid = a.get('sid')
                self.fsm_refused[s.ep].add(sid if (s.exc['where'].startswith('stream') and sid is not None) else 'conn')

    def _call_inner(self, w, e, s):
        trk = e.trk
        client = e.client
        op = s.op
        a = s.args or {}
        if op not in ('send_headers', 'send_data', 'end_stream', 'reset_stream', 'increment_flow_control_window',
                      'push_stream', 'advertise_alternative_service'):
            return
        sid = a.get('sid')
        pre = s.pre.get(sid) if isinstance(sid, int) else None
        cv = rules.call_verdict(trk, s.snap, pre, op, a, client,
                                self.knob - sum(1 for x in self.fsm_refused[s.ep] if x != 'conn'))
        if cv == 'either':
            return
        state = (pre.state + ('/' + pre.closed_by if pre.closed_by else '')) if pre is not None else 'none'
        cell = ('C' if client else 'S', state, op)
        if cell not in self.cells:
            self.cells.add(cell)
            self.probe('cell:%s/%s/%s' % cell)
        self.nontrivial = True
        if cv == 'fail':
            if s.ok:
                kind = 'send-accepted'
                detail = '%s in state %s succeeded' % (op, state)
                if op in ('send_data', 'end_stream') and pre is not None and pre.state in ('open', 'hcR') \
                        and pre.sent in (NONE, INFO) and not client:
                    detail = '%s before final headers' % op
                self.fail(kind, detail, s, role='client' if client else 'server')
            return
        # cv == 'ok': must succeed if the other preconditions (owned by other properties) hold
        if s.ok:
            return
        x = s.exc
        if x['type'] in ('ValueError', 'TypeError'):
            return
        if op == 'send_headers':
            kind_ = 'request' if pre is None else ('trailers' if ((pre.mine and not pre.pushed) or pre.sent == FINAL) else 'response')
            wire = wire_expected(a['headers'], w.cfg[s.ep])
            if conformant(wire, kind_) is not None or not w.cfg[s.ep].get('validate_outbound', True) or \
                    not w.cfg[s.ep].get('normalize_outbound', True):
                return
            if kind_ == 'response' and rules._looks_info(a['headers']) and a.get('es'):
                return
            if x['type'] == 'TooManyStreamsError':
                return
            pw, pd = a.get('pw'), a.get('pd')
            if (pw is not None and not (1 <= pw <= 256)) or pd == sid or (pd is not None and not (0 <= pd <= 2 ** 31 - 1)):
                return
        if op in ('send_data',):
            pad = a.get('pad')
            size = len(a['data']) + ((pad + 1) if isinstance(pad, int) else 0)
            if x['type'] in ('FlowControlError', 'FrameTooLargeError') or size > min(s.snap['conn_send'], pre.send_win):
                return
        if op == 'increment_flow_control_window':
            if x['type'] == 'FlowControlError':
                return
        if op == 'push_stream':
            wire = wire_expected(a['headers'], w.cfg[s.ep])
            if conformant(wire, 'request') is not None or not w.cfg[s.ep].get('validate_outbound', True) or \
                    not w.cfg[s.ep].get('normalize_outbound', True):
                return
        kind = 'send-refused'
        if 'conn' in self.fsm_refused[s.ep] or (sid in self.fsm_refused[s.ep] and sid is not None):
            kind = 'poisoned-by-refused-call'     # an *earlier* call was refused by a state machine
        self.fail(kind, '%s in state %s raised %s' % (op, state, x['type']), s, role='client' if client else 'server',
                  where=x['where'])
