"""C19 - a closed connection stays quiet."""
from .base import Monitor
from .. import codec as C

EMITTING = ('send_headers', 'send_data', 'end_stream', 'reset_stream', 'push_stream', 'ping', 'prioritize',
            'increment_flow_control_window', 'update_settings', 'advertise_alternative_service',
            'initiate_connection', 'initiate_upgrade_connection')


class C19(Monitor):
    prop = 'C19'
    name = 'closed-quiet'

    def start(self, w):
        self.after = {'c': [0, 0], 's': [0, 0]}

    def on_step(self, w, s):
        if not s.snap['closed']:
            return
        n = self.after[s.ep]
        if s.kind == 'call':
            n[0] += 1
        elif s.units:
            n[1] += 1
        if n[0] >= 3 and n[1] >= 1:
            self.nontrivial = True
        self.probe('steps_after_close')
        for f in s.out_frames:
            if f.type != C.GOAWAY:
                self.fail('frame-after-close', '%s emitted on a closed connection' % f.name, s,
                          op=s.op, how=s.snap['closed_how'])
                return
        if s.kind == 'call' and s.op in EMITTING:
            if s.ok:
                self.fail('call-after-close', '%s succeeded on a closed connection' % s.op, s,
                          how=s.snap['closed_how'])
            elif not s.exc['proto'] and s.exc['type'] not in ('ValueError', 'TypeError', 'RFC1122Error'):
                self.fail('call-after-close-exception', '%s raised %s on a closed connection' % (s.op, s.exc['type']), s)

    def finish(self, w):
        """Receiving GOAWAY discards bytes not yet handed to the application:
        re-execute the endpoint's log on a fresh connection *without taking any
        output* until the GOAWAY has been processed; nothing may be left."""
        if self.violations:
            return
        from ..world import Endpoint, World
        for ep in ('c', 's'):
            e0 = w.eps[ep]
            if not e0.trk.goaway_recv:
                continue
            idx = None
            for i, s in enumerate(e0.log):
                if s.kind == 'recv' and s.ok and any(ev['t'] == 'ConnectionTerminated' for ev in s.events or ()):
                    idx = i
                    break
            if idx is None:
                continue
            e = Endpoint(ep, w.cfg[ep], w.cfg.get('knobs', {}))
            conn = e.conn
            pending = 0
            ok = True
            for s in e0.log[:idx + 1]:
                try:
                    if s.kind == 'recv':
                        conn.receive_data(s.chunk)
                    else:
                        World._dispatch(conn, s.op, s.args or {})
                except Exception:  # noqa: BLE001
                    if s.kind == 'recv':
                        ok = False
                        break
                pending += len(s.out)
            if not ok:
                continue
            self.probe('goaway_discard_checked')
            if pending:
                self.probe('goaway_with_pending_output')
            left = conn.data_to_send()
            last = e0.log[idx]
            # output produced by frames *after* the GOAWAY inside the same chunk cannot exist (they raise)
            if left:
                self.fail('goaway-did-not-discard', 'output not yet taken survived a received GOAWAY', None,
                          endpoint=ep, left=len(left), pending_before=pending)
