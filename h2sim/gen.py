"""Seeded workload / schedule / fault generator.

One ``random.Random`` decides everything: the swarm configuration of the run,
every API call and its arguments, every flush, every delivery (size, capping),
every stall and every fault.  The generator only *biases* its choices with
the wire tracker (so that most calls are valid and runs go deep); it records
each decision as a concrete event and executes it through ``World.exec``.
"""
import collections
import copy
import hashlib
import random

from . import codec as C
from .world import World, default_cfg, DEFAULT_EPCFG
from .model import NONE, INFO, FINAL, TRAILERS

MAXID = 2 ** 31 - 1

# ---------------------------------------------------------------------------
# profiles (named presets of swarm weights)

BASE = {
    'events': (40, 260),
    'misuse': 0.12,          # fraction of app calls drawn from the misuse catalogue
    'fsm_misuse': 0.1,       # share of runs in which FSM-refused misuse is allowed (known finding F-POISON)
    'stall': 0.04,
    'burst': 0.25,           # share of runs that deliver without frame capping
    'eager_flush': 0.6,
    'settings_churn': 0.04,
    'mode_b': 0.0,           # per-event probability of a byte/frame fault (Byzantine path)
    'config_matrix': 0.0,    # share of runs with non-default validate/normalise flags
    'encoding': 0.3,         # share of endpoints with header_encoding set
    'small_closed': 0.3,     # share of runs with a tiny closed-stream memory
    'upgrade': 0.0,
    'epilogue': True,
    'hdr_variety': 0.5,
    'big_headers': 0.05,
    'push': 0.06,
    'race_start': 0.1,       # share of runs that do not settle the handshake first
    'windows': 'normal',
    'cl': 0.0,               # share of messages that declare content-length
    'goaway': 0.01,
    'adv': 0.0,              # per-event probability of an adversary frame
    'raw_garbage': 0.0,
    'fork': 0.0,             # share of runs in which arbitrary adversary frames / byte faults are tried in what-if branches
    'adv_plausible': 0.7,    # after the adversary 'goes wild': share of its frames that are still valid in the victim's state   # share of adversary frames that are valid in the victim's current state
}


def prof(**kw):
    d = dict(BASE)
    d.update(kw)
    return d


PROFILES = {
    'DUPLEX': prof(),
    'RACE': prof(stall=0.15, settings_churn=0.08, small_closed=0.6, push=0.12, misuse=0.06),
    'FLOW': prof(windows='small', settings_churn=0.08, misuse=0.08, stall=0.08),
    'HDR': prof(hdr_variety=1.0, config_matrix=0.5, big_headers=0.2, misuse=0.2, cl=0.3),
    'UPGRADE': prof(upgrade=1.0),
    'CORRUPT': prof(mode_b=0.05, epilogue=False, misuse=0.05, fork=0.5),
    'ADV': prof(adv=0.5, mode_b=0.02, epilogue=False, misuse=0.05, events=(40, 300), fork=0.6),
    'MISUSE': prof(misuse=0.4, small_closed=0.6, fsm_misuse=1.0),
    'CLOSE': prof(goaway=0.05, misuse=0.3, fsm_misuse=1.0, epilogue=False),
    'LONG': prof(long=True, epilogue=False, misuse=0.0, events=(4000, 20000), small_closed=0.7, burst=1.0, race_start=0.0),
}


# ---------------------------------------------------------------------------
# header grammar

METHODS = ['GET', 'POST', 'PUT', 'HEAD', 'DELETE', 'OPTIONS', 'PATCH']
AUTHS = ['example.com', 'a', 'localhost:8080', 'www.example.org']
PATHS = ['/', '/index.html', '/a/b?c=d', '*', '/x' * 20]
STATUSES = ['200', '204', '304', '404', '500', '301', '206']
INFOS = ['100', '103', '101', '199']


def _ty(rng, s, as_bytes):
    return s.encode('utf-8') if as_bytes else s


class HdrGen:
    def __init__(self, rng, variety, big, peer_encoding):
        self.rng = rng
        self.variety = variety
        self.big = big
        self.peer_encoding = peer_encoding
        self.counter = 0
        self.head_bias = 0.0
        self.mixed_host = 0.08
        self.mixed_both = False

    def _extras(self, as_bytes, trailers=False, max_frame=16384):
        rng = self.rng
        out = []
        if rng.random() > self.variety and not trailers:
            return out
        n = rng.choice([0, 1, 2, 3, 5, 8])
        for _ in range(n):
            k = rng.randrange(16)
            self.counter += 1
            if k == 0:
                out.append(('user-agent', 'sim/1.%d' % rng.randrange(3)))
            elif k == 1:
                out.append(('accept', '*/*'))
            elif k == 2:
                out.append(('x-custom-%d' % rng.randrange(6), 'v%d' % rng.randrange(8)))
            elif k == 3:
                for _ in range(rng.choice([1, 1, 2, 3])):
                    out.append(('cookie', rng.choice(['a=b', 'sess=%d' % rng.randrange(4),
                                                      'c' * 19, 'd' * 20, 'long=' + 'e' * 30])))
            elif k == 4:
                out.append(('authorization', rng.choice(['Basic abc', '', 'Bearer ' + 'x' * 30])))
            elif k == 5:
                out.append(('te', rng.choice(['trailers', 'Trailers', 'tRaIlErS'])))
            elif k == 6:
                out.append(('Content-Type', 'text/plain'))
            elif k == 7:
                out.append((' x-space ', rng.choice([' v ', '\tv', 'v '])))
            elif k == 8:
                out.append((rng.choice(['connection', 'Keep-Alive', 'proxy-connection', 'upgrade',
                                        'transfer-encoding']), 'close'))
            elif k == 9:
                out.append(('proxy-authorization', 'Basic zzz'))
            elif k == 10:
                out.append(('x-empty', ''))
            elif k == 11:
                out.append(('x-uniq-%d' % self.counter, 'u' * rng.randrange(1, 40)))
            elif k == 12 and as_bytes and not self.peer_encoding:
                out.append(('x-bin', bytes(rng.randrange(256) for _ in range(rng.randrange(1, 12))).strip() or b'\x80'))
            elif k == 13:
                out.append(rng.choice([('x-utf8', 'café'), (' Authorization ', 'Basic padded'), ('cookie ', 'sid=abc'),
                                       ('  cookie', '   sid=abc         '), ('proxy-authorization\t', 'x'),
                                       ('Connection ', 'close'), (' keep-alive', 'timeout=5'),
                                       ('1', 'digit-name'), ('_', 'underscore'), ('2-1', 'v'), ('-', 'dash')]))
            elif k == 14 and rng.random() < self.big * 4:
                size = rng.choice([max_frame - 40, max_frame - 6, max_frame, max_frame + 1, 2 * max_frame + 3, 20000])
                size = max(1, min(size, 40000))
                out.append(('x-big', ''.join(rng.choice('abcdefghijklmnopqrstuvwxyz0123456789') for _ in range(64)) * (size // 64) + 'z' * (size % 64)))
            else:
                out.append(('x-seq', str(self.counter)))
        return out

    limit = None      # the peer's MAX_HEADER_LIST_SIZE as received (set by the generator before each call)

    def _finish(self, hl, as_bytes):
        if self.limit is not None:
            # a sane application keeps within the limit the peer announced
            def size(l):
                return sum(len(h[0]) + len(h[1]) + 32 for h in l) + 64
            while hl and size(hl) > self.limit:
                big = max(range(len(hl)), key=lambda i: len(hl[i][1]))
                if hl[big][0].startswith(':'):
                    break
                del hl[big]
        out = []
        for h in hl:
            n, v = h[0], h[1]
            if isinstance(n, str) and as_bytes:
                n = n.encode('utf-8')
            if isinstance(v, str) and as_bytes:
                v = v.encode('utf-8')
            if isinstance(v, bytes) and not as_bytes:
                v = v.decode('latin-1')
            out.append((n, v))
        return out

    def request(self, max_frame=16384, method=None, body_len=None):
        rng = self.rng
        as_bytes = rng.random() < 0.5
        m = method or (('HEAD' if rng.random() < self.head_bias else None) or rng.choice(METHODS))
        auth = rng.choice(AUTHS)
        pseudo = [(':method', m), (':scheme', rng.choice(['https', 'http'])), (':path', rng.choice(PATHS))]
        if method is None and self.variety and rng.random() < self.variety * 0.04:
            # extended CONNECT (RFC 8441): the one request that carries :protocol, in any pseudo-header order
            m = 'CONNECT'
            pseudo = [(':method', m), (':scheme', 'https'), (':path', '/chat'), (':protocol', rng.choice(['websocket', 'connect-udp']))]
        hostmode = rng.choice(['authority', 'authority', 'host', 'both'])
        if self.variety and rng.random() < self.variety * 0.04:
            auth = ''           # present but empty (legal: RFC 7540 only asks for presence and agreement)
        if m == 'HEAD' and self.head_bias and rng.random() < 0.5:
            hostmode = 'host'   # (a request that names its authority only in Host)
        if hostmode in ('authority', 'both'):
            pseudo.append((':authority', auth))
        rng.shuffle(pseudo)
        hl = list(pseudo)
        if self.variety and rng.random() < self.variety * 0.2:
            hl = [(n.upper() if rng.random() < 0.3 else n, v) for n, v in hl]
        if hostmode in ('host', 'both'):
            hl.append(('host', auth))
        hl += self._extras(as_bytes, max_frame=max_frame)
        if body_len is not None:
            hl.append(('content-length', str(body_len)))
        out = self._finish(hl, as_bytes)
        if self.variety and (hostmode == 'host' or (self.mixed_both and hostmode == 'both')) and \
                rng.random() < self.variety * self.mixed_host:
            # a list that mixes str and bytes: the same field once more in the other type, with another value
            # (normally only without :authority: the library compares the two fields as given, and 'a' != b'a' - with
            # mixed_both such lists, which an intact library refuses every time, are generated too)
            other = rng.choice(AUTHS + [auth, auth])
            out.append(('host', other) if as_bytes else (b'host', other.encode()))
        return out

    def response(self, info=False, max_frame=16384, status=None, body_len=None):
        rng = self.rng
        as_bytes = rng.random() < 0.5
        st = status or (rng.choice(INFOS) if info else rng.choice(STATUSES))
        hl = [(':status', st)] + self._extras(as_bytes, max_frame=max_frame)
        if body_len is not None:
            hl.append(('content-length', str(body_len)))
        return self._finish(hl, as_bytes)

    def trailers(self, max_frame=16384):
        rng = self.rng
        as_bytes = rng.random() < 0.5
        hl = [('x-trailer', 't%d' % rng.randrange(5))] + self._extras(as_bytes, trailers=True, max_frame=max_frame)
        hl = [h for h in hl if h[0].strip().lower() not in ('te',)]
        return self._finish(hl, as_bytes)

    def invalid(self, kind_hint=None, max_frame=16384):
        """A header list that is (probably) refused, by one of several rules."""
        rng = self.rng
        base = self.request(max_frame) if rng.random() < 0.6 else self.response(max_frame=max_frame)
        hl = [list(h) for h in base]
        as_bytes = bool(hl) and isinstance(hl[0][0], bytes)

        def t(s):
            return s.encode() if as_bytes else s
        k = rng.randrange(14)
        if k == 0 and hl:
            del hl[rng.randrange(min(4, len(hl)))]          # drop a pseudo header
        elif k == 1:
            hl.insert(rng.randrange(len(hl) + 1), list(hl[0]))   # duplicate pseudo
        elif k == 2:
            hl.append([t(':path'), t('/late')])              # pseudo after regular
        elif k == 3:
            hl.append([t('te'), t('gzip')])
        elif k == 4:
            hl.insert(0, [t(':custom'), t('x')])
        elif k == 5:
            hl = [[n, (t('') if n in (':path', b':path') else v)] for n, v in hl]
        elif k == 6:
            hl.append([t(':status'), t('200')])
        elif k == 7:
            hl.append([t('host'), t('other.example')])
        elif k == 8:
            hl.append([t('  '), t('blank-name')])
        elif k == 9:
            hl.append([t(''), t('empty-name')])
        elif k == 10 and hl:
            # same pseudo header once as str and once as bytes
            n, v = hl[0]
            other = (n.decode() if isinstance(n, bytes) else n.encode())
            hl.insert(1, [other, v])
        elif k == 11:
            hl = []
            if rng.random() < 0.7:
                # :authority and host both present, disagreeing, one of them empty
                a, h = rng.choice([('', 'evil.example'), ('example.com', ''), ('', ' '), ('a', 'b')])
                hl = [[t(':method'), t('GET')], [t(':scheme'), t('https')], [t(':path'), t('/')], [t(':authority'), t(a)],
                      [t('host'), t(h)]]
        elif k == 12:
            hl.append([t('x-late-invalid'), t('v')])
            hl.append([t(':method'), t('GET')])
        else:
            hl.append([t('connection'), t('close')])
            hl.append([t('TE'), t('chunked')])
        return [tuple(h) for h in hl]


# ---------------------------------------------------------------------------

SETTING_VALUES = {
    C.S_HEADER_TABLE_SIZE: [0, 32, 100, 4096, 65536],
    C.S_ENABLE_PUSH: [0, 1],
    C.S_MAX_CONCURRENT_STREAMS: [0, 1, 2, 3, 100],
    C.S_INITIAL_WINDOW_SIZE: [0, 1, 3, 50, 1024, 65535, 2 ** 20],
    C.S_MAX_FRAME_SIZE: [2 ** 14, 2 ** 14 + 1, 20000, 2 ** 16],
    C.S_MAX_HEADER_LIST_SIZE: [4096, 65536, 2 ** 20],
    C.S_ENABLE_CONNECT_PROTOCOL: [0, 1],
}
BAD_SETTING_VALUES = {
    C.S_ENABLE_PUSH: [2, 2 ** 32 - 1],
    C.S_INITIAL_WINDOW_SIZE: [2 ** 31, 2 ** 32 - 1],
    C.S_MAX_FRAME_SIZE: [0, 2 ** 14 - 1, 2 ** 24, 2 ** 32 - 1],
    C.S_ENABLE_CONNECT_PROTOCOL: [2, 7],
}


class Gen:
    def __init__(self, seed, profile, monitors=(), overrides=None, avoid=None):
        self.seed = seed
        self.rng = rng = random.Random(seed)
        self.pname = profile
        P = dict(PROFILES[profile])
        if overrides:
            P.update(overrides)
        self.P = P
        self.avoid = set(avoid or ())      # finding tags whose triggers are steered around in this run
        cfg = default_cfg()
        cfg['profile'] = profile
        cfg['seed'] = seed
        # swarm configuration --------------------------------------------
        for ep in ('c', 's'):
            ec = dict(DEFAULT_EPCFG)
            if rng.random() < P['encoding']:
                ec['header_encoding'] = 'utf-8'
            if rng.random() < P['config_matrix']:
                for k in ('validate_outbound', 'normalize_outbound', 'validate_inbound', 'normalize_inbound'):
                    if k.endswith('outbound') and not P.get('matrix_outbound', True):
                        continue
                    ec[k] = rng.random() < 0.5
            cfg[ep] = ec
        if rng.random() < P['small_closed']:
            cfg['knobs']['MAX_CLOSED_STREAMS'] = rng.choice([1, 2, 4, 64])
        cfg['knobs']['CONTINUATION_BACKLOG'] = rng.choice([64, 64, 8, 2]) if P.get('small_backlog', True) else 64
        self.upgrade = rng.random() < P['upgrade']
        cfg['upgrade'] = self.upgrade
        self.burst = rng.random() < P['burst']
        self.eager = rng.random() < P['eager_flush']
        self.n_events = rng.randint(*P['events'])
        self.fsm_misuse = rng.random() < P['fsm_misuse'] and 'F-POISON' not in self.avoid
        self.race_start = rng.random() < P['race_start']
        self.misuse = P['misuse'] * rng.choice([0, 0.5, 1, 1, 2])
        self.max_streams = rng.choice([1, 2, 4, 8, 20, 40])
        self.payload_scale = rng.choice([0, 10, 300, 5000, 70000])
        # per-run op weights (swarm: some kinds disabled altogether)
        ops = {'open': 3, 'respond': 3, 'info': 1, 'data': 5, 'end': 2, 'trailers': 1, 'reset': 1,
               'ping': 1, 'ack': 4, 'settings': 0, 'push': 0, 'prio': 1, 'winc': 1, 'altsvc': 1,
               'gc': 1, 'query': 2, 'goaway': 0, 'race': 0, 'rsv': 0, 'boundary': 0}
        for k in list(ops):
            if rng.random() < 0.2 and k not in ('open', 'respond'):
                ops[k] = 0
        if rng.random() < 0.7:
            ops['settings'] = P['settings_churn'] * 25
        if rng.random() < 0.6:
            ops['push'] = P['push'] * 25
            ops['rsv'] = P['push'] * 25 * P.get('rsv', 0.5)
        if rng.random() < 0.5:
            ops['goaway'] = P['goaway'] * 10
        if rng.random() < P.get('boundary', 0.0):
            ops['boundary'] = 0.6
        self.no_winc = bool(P.get('no_manual_winc'))
        if self.no_winc:
            ops['winc'] = 0
        for k, mult in (P.get('ops_boost') or {}).items():
            ops[k] = max(ops.get(k, 0), 1) * mult
        self.ops = ops
        self.at_limit_attempts = P.get('at_limit_attempts', 0.1)
        self.adv_new_streams = P.get('adv_new_streams', 0)
        cfg['swarm'] = {'burst': self.burst, 'eager': self.eager, 'n': self.n_events,
                        'fsm_misuse': self.fsm_misuse, 'race_start': self.race_start,
                        'misuse': self.misuse}
        self.cfg = cfg
        self.w = World(cfg)
        self.w.monitors = list(monitors)
        for m in self.w.monitors:
            m.start(self.w)
        self.hg = {ep: HdrGen(rng, P['hdr_variety'], P['big_headers'],
                              cfg[World.peer(ep)]['header_encoding']) for ep in ('c', 's')}
        for h_ in self.hg.values():
            h_.head_bias = P.get('head_bias', 0.0)
            h_.mixed_host = P.get('mixed_host', 0.08)
            h_.mixed_both = bool(P.get('mixed_both'))
        self.unacked = {'c': [], 's': []}
        self.stalled = {'c2s': 0, 's2c': 0}
        self.ping_ctr = 0
        # HEADER_TABLE_SIZE guard (hpack 4.2 dependency defect, DESIGN section 8): 'clean' -> change allowed;
        # 'wait_ack' after a change; 'wait_block' once that change was acknowledged; back to 'clean' when a header
        # block arrives after the ACK (it was then encoded after the peer applied the change)
        self.table_state = {'c': 'clean', 's': 'clean'}
        self.halted = False
        self.cl_left = {}          # (ep, sid) -> body bytes still owed under a declared content-length
        self.adv_dir = None
        self.silent = None
        if P['adv']:
            self.adv_dir = rng.choice(['c2s', 's2c', None])
            if self.adv_dir and rng.random() < 0.5:
                self.silent = World.src_of(self.adv_dir)   # the stub side's application says nothing itself
        cfg['swarm']['adv_dir'] = self.adv_dir
        cfg['swarm']['silent'] = self.silent
        # what-if branches (DESIGN 10.6): the main line stays alive (the adversary only sends frames that are valid in
        # the victim's state, no byte faults); each arbitrary frame / fault is tried on a deep copy of the whole
        # simulation, judged there by copies of the monitors, and thrown away
        self.fork_mode = rng.random() < P.get('fork', 0.0)
        cfg['swarm']['fork'] = self.fork_mode
        self.is_branch = False
        self.branch_ctr = 0
        self.branch_findings = []      # [(violations, trace)] of branches that ended in a violation
        self.branch_probes = collections.Counter()
        self.branch_nontrivial = False
        self.branch_steps = 0
        self.branch_faults = {}
        self.branch_cb = None          # self-test hook: called with every finished branch
        self.refused = {'c': [], 's': []}      # last refused calls per endpoint: (op, args)
        self.hot_ids = {'c': [], 's': []}      # stream ids named in them (the adversary likes to poke at those)
        self.nohead = set()        # (ep, sid): messages that must not carry a body
        self.lie_streams = set()   # (ep, sid): the application deliberately breaks content-length / no-content rules (C16)

    # -- plumbing ----------------------------------------------------------
    def ex(self, ev):
        s = self.w.exec(ev)
        if s is not None:
            self._observe(s)
        if any(m.violations for m in self.w.monitors) or any(getattr(m, 'halt', False) for m in self.w.monitors):
            self.halted = True
        return s

    def _observe(self, s):
        if s.kind == 'recv' and s.events:
            for e in s.events:
                if e['t'] == 'DataReceived' and e['flow_controlled_length']:
                    self.unacked[s.ep].append([e['stream_id'], e['flow_controlled_length']])
        if s.kind == 'recv':
            for ev in s.events or ():
                if ev['t'] == 'SettingsAcknowledged' and C.S_HEADER_TABLE_SIZE in ev['changed_settings'] \
                        and self.table_state[s.ep] == 'wait_ack':
                    self.table_state[s.ep] = 'wait_block'
                elif ev['t'] in ('RequestReceived', 'ResponseReceived', 'TrailersReceived', 'PushedStreamReceived',
                                 'InformationalResponseReceived') and self.table_state[s.ep] == 'wait_block':
                    self.table_state[s.ep] = 'clean'
        if s.kind == 'call' and s.op == 'update_settings' and s.ok and C.S_HEADER_TABLE_SIZE in s.args['settings']:
            self.table_state[s.ep] = 'wait_ack'

    AFTERMATH_OPS = ('send_headers', 'push_stream', 'send_data', 'end_stream', 'update_settings')

    def call(self, ep, op, **a):
        s = self.ex({'ev': 'call', 'ep': ep, 'op': op, 'a': a})
        if s is not None and not s.ok and op in self.AFTERMATH_OPS and not s.snap['closed']:
            self.refused[ep].append((op, a))
            del self.refused[ep][:-3]
            for k in ('sid', 'promised'):
                if isinstance(a.get(k), int) and 0 < a[k] <= MAXID:
                    self.hot_ids[ep].append(a[k])
            del self.hot_ids[ep][:-4]
        if self.eager and not self.halted:
            self.ex({'ev': 'flush', 'ep': ep, 'n': None})
        return s

    def flush(self, ep, n=None):
        self.ex({'ev': 'flush', 'ep': ep, 'n': n})

    def deliver(self, d, n, cap):
        return self.ex({'ev': 'deliver', 'dir': d, 'n': n, 'cap': cap})

    def settle(self, max_rounds=400):
        """Flush and deliver everything both ways until quiescent."""
        w = self.w
        for _ in range(max_rounds):
            if self.halted:
                return
            moved = False
            for ep in ('c', 's'):
                if w.eps[ep].outbox:
                    self.flush(ep)
                    moved = True
            for d in ('c2s', 's2c'):
                if w.pipes[d].backlog:
                    self.deliver(d, 1 << 30, 1)
                    moved = True
                    if self.halted:
                        return
            if not moved:
                return

    # -- run ---------------------------------------------------------------
    def run(self):
        try:
            self._run()
            for m in self.w.monitors:
                m.finish(self.w)
        finally:
            self.w.close()
        return self.w

    def _run(self):
        rng = self.rng
        P = self.P
        w = self.w
        if self.upgrade:
            self._start_upgrade()
            if self.upgrade_view_only:
                return
        else:
            self.call('c', 'initiate_connection')
            self.call('s', 'initiate_connection')
            if rng.random() < P.get('bad_preface', 0.0):
                # the very first bytes a server sees are not the client preface (a corrupted byte in it)
                self.ex({'ev': 'flush', 'ep': 'c', 'n': None})
                self.ex({'ev': 'fault', 'kind': 'flip', 'dir': 'c2s', 'off': rng.randrange(24), 'xor': rng.choice([1, 0x20, 0xff])})
        if P.get('long'):
            self.settle()
            return self._run_long()
        if not self.race_start:
            self.settle()
            # initial non-default settings, then settle again
            for ep in ('c', 's'):
                bias = P.get('settings_bias') or {}
                d = None
                if bias and rng.random() < 0.8:
                    d = {}
                    for k, vals in bias.items():
                        if k == C.S_ENABLE_PUSH and ep == 's':
                            continue
                        if rng.random() < 0.7:
                            d[k] = rng.choice(vals)
                elif rng.random() < 0.5:
                    d = self._settings_dict(ep, initial=True)
                if d and not self.halted:
                    self.call(ep, 'update_settings', settings=d)
                    self.settle()
        i = 0
        # the adversary behaves (frames valid in the victim's state) until a random point of the run, so that its
        # arbitrary frames - each of which may well be the last one the connection sees - meet deep states
        self.adv_wild_from = int(self.n_events * rng.choice([0.0, 0.3, 0.5, 0.7, 0.9]))
        if self.fork_mode:
            self.adv_wild_from = self.n_events + 1      # the main line never goes wild: branches do
        self.iter = 0
        while i < self.n_events and not self.halted:
            i += 1
            self.iter = i
            self._iterate()
        if self.halted:
            return
        if P['epilogue']:
            self._epilogue()

    def _iterate(self):
        rng = self.rng
        P = self.P
        w = self.w
        if True:
            if P['adv'] and rng.random() < P['adv'] * 0.3:
                self._adversary()
                return
            r = rng.random()
            if r < 0.42:
                ep = rng.choice('cs')
                if w.eps[ep].trk.closed and rng.random() < 0.7:
                    return
                if ep == self.silent:
                    return
                if self.refused[ep] and rng.random() < P.get('aftermath', 0.15):
                    self._aftermath(ep)
                elif rng.random() < self.misuse:
                    self._misuse(ep)
                else:
                    self._valid(ep)
            elif r < 0.52:
                ep = rng.choice('cs')
                n = None if rng.random() < 0.7 else rng.choice([1, 5, 9, 10, 17, 33, 100, 1000])
                if w.eps[ep].outbox:
                    self.flush(ep, n)
            elif r < 0.52 + P['stall']:
                d = rng.choice(['c2s', 's2c'])
                self.stalled[d] = rng.randrange(3, 40)
            elif r < 0.58 + P['stall'] and P['mode_b'] and rng.random() < P['mode_b'] * 10:
                self._fault()
            elif r < 0.62 + P['stall'] and P['adv'] and rng.random() < P['adv']:
                self._adversary()
            else:
                d = rng.choice(['c2s', 's2c'])
                if self.stalled[d] > 0:
                    self.stalled[d] -= 1
                    return
                if not w.pipes[d].backlog:
                    return
                n = rng.choice([1, 2, 3, 8, 9, 10, 17, 24, 25, 50, 200, 5000, 1 << 30, 1 << 30])
                cap = 0 if self.burst else rng.choice([1, 1, 2])
                self.deliver(d, n, cap)

    # -- LONG profile: adversary churn against one real endpoint --------------
    def _run_long(self):
        from . import adversary
        rng = self.rng
        w = self.w
        # servers see the richest churn (the stub opens streams); clients only get references
        victim = 's' if rng.random() < 0.85 else 'c'
        stub = w.peer(victim)
        d = w.in_dir(victim)
        ve = w.eps[victim]
        vt = ve.trk
        if rng.random() < 0.5 and not self.halted:
            self.call(victim, 'update_settings', settings={C.S_MAX_HEADER_LIST_SIZE: rng.choice([4096, 65536]),
                                                          C.S_MAX_CONCURRENT_STREAMS: rng.choice([10, 100])})
            self.settle()
        if victim == 'c' and not self.halted:
            # a client with one long-lived request that then only listens: whatever piles up in it, the peer did
            self.call('c', 'send_headers', sid=1, headers=[(':method', 'GET'), (':scheme', 'https'), (':authority', 'a'),
                                                            (':path', '/long')], es=rng.random() < 0.5)
            if w.eps['c'].outbox:
                del w.eps['c'].outbox[:]
        n = self.n_events
        i = 0
        w.pipes[d].tainted = True
        while i < n and not self.halted:
            i += 1
            batch = 1       # one frame group at a time: each one is drawn from the victim's state after the previous one
            raw = bytearray()
            for _ in range(batch):
                if rng.random() < 0.0002:
                    ev = adversary.draw(self)       # the rare arbitrary / invalid frame
                    if ev is not None and ev.get('ev') == 'inject':
                        raw += ev['bytes']
                    continue
                for f in adversary.long_frames(self, vt, victim == 's', stub):
                    raw += f.serialize()
                i += 1
            if raw:
                self.ex({'ev': 'inject', 'dir': d, 'pos': len(w.pipes[d].backlog), 'bytes': bytes(raw)})
                if self.halted:
                    break
                cap = rng.choice([0, 0, 1])
                while w.pipes[d].backlog and not self.halted:
                    self.deliver(d, 1 << 30, cap)
            # the victim's automatic output goes nowhere interesting: drop it
            if ve.outbox:
                del ve.outbox[:]
            r = rng.random()
            if r < 0.05:
                self.call(victim, rng.choice(['open_inbound_streams', 'open_outbound_streams']))
            elif r < 0.08 and self.unacked[victim]:
                sid, k = self.unacked[victim].pop()
                self.call(victim, 'acknowledge_received_data', n=k, sid=sid)
            elif r < 0.10 and victim == 's':
                live = [st for st in vt.streams.values() if st.state in ('open', 'hcR') and not st.mine]
                if live:
                    st = rng.choice(live)
                    if st.sent in (NONE, INFO):
                        self.call(victim, 'send_headers', sid=st.sid, headers=[(':status', '200')], es=rng.random() < 0.7)
                    else:
                        self.call(victim, 'end_stream', sid=st.sid)
            if vt.closed and rng.random() < 0.2:
                break
        if not self.halted:
            self.call(victim, 'open_inbound_streams')
            self.call(victim, 'open_outbound_streams')

    # -- valid calls -------------------------------------------------------
    def _weights(self, ep, trk):
        return self.ops

    def _valid(self, ep):
        rng = self.rng
        w = self.w
        e = w.eps[ep]
        trk = e.trk
        ops = self.ops
        names = list(ops)
        op = rng.choices(names, [ops[k] for k in names])[0]
        if trk.closed and self.unacked[ep] and rng.random() < 0.5:
            op = 'ack'          # applications typically still work off received data after the close
        live = [st for st in trk.streams.values() if st.state != 'closed']
        fn = getattr(self, '_op_' + op)
        fn(ep, e, trk, live)

    def _max_frame(self, trk):
        # (also the moment to tell the header generator the peer's list-size limit)
        for ep in ('c', 's'):
            # (before the peer's SETTINGS arrive the application keeps to what an h2 peer announces by default)
            lim = self.w.eps[ep].trk.peer.get(C.S_MAX_HEADER_LIST_SIZE)
            self.hg[ep].limit = 65536 if lim is None else lim
        return trk.peer[C.S_MAX_FRAME_SIZE]

    def _op_open(self, ep, e, trk, live):
        rng = self.rng
        if not e.client:
            return self._op_respond(ep, e, trk, live)
        sid = max(trk.hi_mine + 2, 1) if trk.hi_mine else 1
        if rng.random() < 0.05:
            sid += 2 * rng.randrange(1, 4)
        elif rng.random() < self.P.get('top_ids', 0.01):
            sid = max(sid, rng.choice([MAXID - 2, MAXID - 2, MAXID]))      # user-chosen ids at the very end of the id space
        if sid > MAXID:
            return
        lim = trk.peer.get(C.S_MAX_CONCURRENT_STREAMS)
        nopen = trk.count_open(True)
        if (lim is not None and nopen >= lim) or nopen >= self.max_streams:
            if not (lim is not None and nopen >= lim and rng.random() < self.at_limit_attempts):
                return      # (sometimes the application tries anyway: TooManyStreamsError expected)
        kw = {}
        es = rng.random() < 0.3
        body_len = None
        method = None
        lie = rng.random() < self.P.get('cl_lie', 0)
        if rng.random() < self.P['cl'] or lie:
            body_len = 0 if (es and not lie) else rng.choice([0, 1, 10, 100])
        hs = self.hg[ep].request(self._max_frame(trk), method=method, body_len=body_len)
        if rng.random() < self.P.get('prio_open', 0.15):
            kw['pw'] = rng.choice([1, 16, 256, 17, 255])
            if rng.random() < 0.5:
                kw['pd'] = rng.choice([0, 1, 3, sid - 2 if sid > 2 else 0, sid + 2])
            if rng.random() < 0.5:
                kw['pe'] = rng.random() < 0.5
        elif rng.random() < 0.05:
            kw['pd'] = rng.choice([0, 1, 5])
        s = self.call(ep, 'send_headers', sid=sid, headers=hs, es=es, **kw)
        if lie:
            self.lie_streams.add((ep, sid))
        elif s is not None and s.ok and body_len is not None:
            self.cl_left[(ep, sid)] = body_len

    def _op_respond(self, ep, e, trk, live):
        rng = self.rng
        if e.client:
            return self._op_open(ep, e, trk, live)
        cands = [st for st in live if ((not st.mine and st.state in ('open', 'hcR')) or st.state == 'rsvL')
                 and st.sent in (NONE, INFO)]
        if not cands:
            return
        st = rng.choice(cands)
        if st.state == 'rsvL':
            lim = trk.peer.get(C.S_MAX_CONCURRENT_STREAMS)
            if lim is not None and trk.count_open(True) >= lim and rng.random() > self.at_limit_attempts:
                return
        es = rng.random() < 0.3
        body_len = None
        status = None
        head = (st.req_method == b'HEAD')
        lie = rng.random() < self.P.get('cl_lie', 0)
        if head or rng.random() < 0.15:
            status = rng.choice(['204', '304']) if not head else None
        if (rng.random() < self.P['cl'] and not head and status is None) or lie:
            body_len = 0 if (es and not lie) else rng.choice([0, 1, 10, 100])
        hs = self.hg[ep].response(max_frame=self._max_frame(trk), status=status, body_len=body_len)
        s = self.call(ep, 'send_headers', sid=st.sid, headers=hs, es=es)
        if lie:
            self.lie_streams.add((ep, st.sid))
        elif s is not None and s.ok:
            if body_len is not None:
                self.cl_left[(ep, st.sid)] = body_len
            if head or status is not None:
                self.nohead.add((ep, st.sid))

    def _op_info(self, ep, e, trk, live):
        rng = self.rng
        if e.client:
            return
        cands = [st for st in live if not st.mine and st.state in ('open', 'hcR') and st.sent in (NONE, INFO)]
        if not cands:
            return
        st = rng.choice(cands)
        bl = rng.choice([0, 5, 100]) if rng.random() < self.P.get('cl_lie', 0) else None
        hs = self.hg[ep].response(info=True, max_frame=self._max_frame(trk), body_len=bl)
        self.call(ep, 'send_headers', sid=st.sid, headers=hs)

    def _sendable(self, trk, live):
        return [st for st in live if st.state in ('open', 'hcR') and st.sent == FINAL and
                not (st.mine and not st.pushed and not trk.client)]

    def _op_data(self, ep, e, trk, live):
        rng = self.rng
        cands = self._sendable(trk, live)
        if not cands:
            return
        st = rng.choice(cands)
        if ((ep, st.sid) in self.nohead or self._no_body(trk, st)) and (ep, st.sid) not in self.lie_streams:
            return self._op_end(ep, e, trk, live, st)
        room = min(trk.conn_send, st.send_win, self._max_frame(trk))
        pad = None
        if rng.random() < 0.2:
            pad = rng.choice([0, 1, 7, 255])
        overhead = (pad + 1) if pad is not None else 0
        if room - overhead < 0:
            pad = None
            overhead = 0
        room -= overhead
        if room < 0:
            if rng.random() < 0.5:
                # (a window driven negative by a smaller INITIAL_WINDOW_SIZE: even an empty frame is refused)
                self.call(ep, 'send_data', sid=st.sid, data=b'', es=rng.random() < 0.5, pad=None)
            return
        size = rng.choice([0, 1, room, room, max(room - 1, 0), min(room, 10), min(room, 1000),
                           min(room, self.payload_scale)])
        size = min(size, 70000)
        es = rng.random() < 0.2
        owed = self.cl_left.get((ep, st.sid))
        if owed is not None:
            if size >= owed:
                size = owed
                es = es or rng.random() < 0.5
            else:
                es = False
            if size > room:
                return
        data = bytes((st.sid + i) & 0xff for i in range(min(size, 64))) * (size // 64 + 1) if size else b''
        data = data[:size]
        s = self.call(ep, 'send_data', sid=st.sid, data=data, es=es, pad=pad)
        if s is not None and s.ok and owed is not None:
            self.cl_left[(ep, st.sid)] = owed - size

    @staticmethod
    def _no_body(trk, st):
        """Responses defined to have no content (to HEAD, 204, 304)."""
        if trk.client and st.mine and not st.pushed:
            return False
        return st.req_method == b'HEAD' or st.resp_status in (b'204', b'304')

    def _op_end(self, ep, e, trk, live, st=None):
        rng = self.rng
        if st is None:
            cands = self._sendable(trk, live)
            cands = [c for c in cands if not self.cl_left.get((ep, c.sid))]
            if not cands:
                return
            st = rng.choice(cands)
        if self.cl_left.get((ep, st.sid)):
            return
        if not trk.client and st.sent != FINAL and 'F-DATA-BEFORE-HEADERS' in self.avoid:
            return
        self.call(ep, 'end_stream', sid=st.sid)

    def _op_trailers(self, ep, e, trk, live):
        rng = self.rng
        cands = [c for c in self._sendable(trk, live) if not self.cl_left.get((ep, c.sid))]
        if not cands:
            return
        st = rng.choice(cands)
        hs = self.hg[ep].trailers(self._max_frame(trk))
        kw = {}
        if e.client and rng.random() < self.P.get('prio_open', 0.15) * 0.5:
            kw = rng.choice([{'pw': 7}, {'pw': 256, 'pd': 1, 'pe': True}, {'pd': 0}, {'pe': False}])
        self.call(ep, 'send_headers', sid=st.sid, headers=hs, es=True, **kw)

    def _op_reset(self, ep, e, trk, live):
        rng = self.rng
        if not live:
            return
        st = rng.choice(live)
        code = rng.choice([0, 1, 2, 5, 7, 8, 11, 13, 99, 2 ** 32 - 1])
        self.call(ep, 'reset_stream', sid=st.sid, code=code)

    def _op_ping(self, ep, e, trk, live):
        self.ping_ctr += 1
        data = bytes([self.ping_ctr & 0xff]) * 7 + (b'c' if e.client else b's')
        if self.rng.random() < 0.1:
            data = bytes(self.rng.randrange(256) for _ in range(8))
        self.call(ep, 'ping', data=data)
        if self.rng.random() < self.P.get('ping_burst', 0.03):
            # many PINGs queued back to back: the peer finds them in one receive_data call if the network allows
            for i in range(self.rng.choice([2, 5, 63, 64, 65, 66, 130])):
                self.ping_ctr += 1
                s_ = self.call(ep, 'ping', data=(self.ping_ctr & 0xffffffff).to_bytes(4, 'big') + b'brst')
                if s_ is None or not s_.ok:
                    break

    def _op_ack(self, ep, e, trk, live):
        rng = self.rng
        un = self.unacked[ep]
        if not un:
            return
        if trk.closed and rng.random() < 0.7:
            # the application works off its backlog after the connection closed: one big acknowledgement per stream
            sid = un[0][0]
            total = sum(n for s_, n in un if s_ == sid)
            self.unacked[ep] = [x for x in un if x[0] != sid]
            self.call(ep, 'acknowledge_received_data', n=total, sid=sid)
            return
        i = rng.randrange(len(un))
        sid, n = un[i]
        part = n if rng.random() < 0.7 else rng.randrange(1, n + 1)
        if part == n:
            un.pop(i)
        else:
            un[i][1] -= part
        self.call(ep, 'acknowledge_received_data', n=part, sid=sid)

    def _settings_dict(self, ep, initial=False):
        rng = self.rng
        d = {}
        keys = list(SETTING_VALUES)
        for _ in range(rng.choice([1, 1, 2, 3])):
            k = rng.choice(keys)
            if k == C.S_ENABLE_PUSH and ep == 's':
                continue
            if k == C.S_HEADER_TABLE_SIZE and self.table_state[ep] != 'clean':
                continue    # hpack 4.2 dependency defect (see DESIGN 8): stale intermediate size update
            vals = SETTING_VALUES[k]
            if k == C.S_INITIAL_WINDOW_SIZE and self.P['windows'] == 'small':
                vals = [0, 1, 3, 50, 1024, 65535]
            elif k == C.S_INITIAL_WINDOW_SIZE and self.P['windows'] == 'normal' and rng.random() < 0.7:
                vals = [1024, 65535, 2 ** 20]
            d[k] = rng.choice(vals)
        return d

    def _op_settings(self, ep, e, trk, live):
        if trk.acks_received == 0 and 'F-ACK-INITIAL' in self.avoid:
            return      # an update before the initial SETTINGS is acknowledged: known finding
        d = self._settings_dict(ep)
        if self.rng.random() < self.P.get('empty_settings', 0.03):
            d = {}
        if d or self.rng.random() < 0.25:
            self.call(ep, 'update_settings', settings=d)       # (sometimes an empty SETTINGS frame: legal, acknowledged like any)

    def _op_push(self, ep, e, trk, live):
        rng = self.rng
        if e.client:
            return
        if not trk.peer.get(C.S_ENABLE_PUSH, 1) and rng.random() > self.at_limit_attempts:
            return      # (sometimes the server tries anyway: refusal expected)
        cands = [st for st in live if not st.mine and st.state in ('open', 'hcR')]
        if rng.random() < self.at_limit_attempts * 0.5:
            closed = [st for st in trk.streams.values() if not st.mine and st.state == 'closed']
            cands = cands + closed[:3]
        if not cands:
            return
        st = rng.choice(cands)
        promised = trk.hi_mine + 2 if trk.hi_mine else 2
        if rng.random() < 0.05:
            promised += 2
        if promised > MAXID:
            return
        hs = self.hg[ep].request(self._max_frame(trk), method=rng.choice(['GET', 'HEAD']))
        self.call(ep, 'push_stream', sid=st.sid, promised=promised, headers=hs)

    def _op_rsv(self, ep, e, trk, live):
        """A scripted history around a promised stream that is still reserved: the client changes INITIAL_WINDOW_SIZE
        or MAX_FRAME_SIZE (and the change is acknowledged) between the promise and the pushed response, which then
        uses the stream up to the new limits."""
        rng = self.rng
        w = self.w
        c, s_ = w.eps['c'], w.eps['s']
        ct, stt = c.trk, s_.trk
        if ct.closed or stt.closed or self.halted or self.silent:
            return
        if ct.acks_received == 0 and 'F-ACK-INITIAL' in self.avoid:
            return
        if not stt.peer.get(C.S_ENABLE_PUSH, 1):
            return
        kind = rng.choice(['iws', 'iws', 'mfs'])
        if kind == 'mfs' and rng.random() < 0.7:
            # (so that there is something to lower again)
            self.call('c', 'update_settings', settings={C.S_MAX_FRAME_SIZE: rng.choice([32768, 65536])})
            self.settle()
        rsv = [st for st in stt.streams.values() if st.state == 'rsvL' and st.sent in (NONE, INFO)]
        if not rsv:
            live_s = [x for x in stt.streams.values() if x.state != 'closed']
            self._op_push('s', s_, stt, live_s)
            self.settle()
            rsv = [st for st in stt.streams.values() if st.state == 'rsvL' and st.sent in (NONE, INFO)]
        if not rsv or self.halted or ct.closed or stt.closed:
            return
        st = rng.choice(rsv)
        if ct.get(st.sid) is None or ct.get(st.sid).state != 'rsvR':
            return
        if kind == 'iws':
            vals = [0, 3, 100, 1024, 65535, 100000, 2 ** 20]
            if self.P['windows'] == 'small':
                vals = [0, 3, 100, 1024, 65535]
            d = {C.S_INITIAL_WINDOW_SIZE: rng.choice(vals)}
        else:
            d = {C.S_MAX_FRAME_SIZE: rng.choice([16384, 16384, 16385, 32768])}
        self.call('c', 'update_settings', settings=d)
        if rng.random() < 0.85:
            self.settle()
        if self.halted or ct.closed or stt.closed:
            return
        lim = stt.peer.get(C.S_MAX_CONCURRENT_STREAMS)
        if lim is not None and stt.count_open(True) >= lim:
            return
        if self._no_body(stt, st):
            return
        mf = self._max_frame(stt)
        hs = self.hg['s'].response(max_frame=mf, status='200')
        if kind == 'mfs' or rng.random() < 0.2:
            size = rng.choice([mf - 50, mf + 1, 16385, 20000, 33000])
            lim_ = stt.peer.get(C.S_MAX_HEADER_LIST_SIZE)
            cur = sum(len(h[0]) + len(h[1]) + 32 for h in hs)
            if (lim_ is None or size + cur + 200 < lim_) and size + cur + 200 < 60000 and size > 0:
                as_bytes = bool(hs) and isinstance(hs[0][0], bytes)
                v = ''.join(rng.choice('abcdefghijklmnopqrstuvwxyz0123456789') for _ in range(48)) * (size // 48 + 1)
                hs = list(hs) + [(b'x-big', v[:size].encode()) if as_bytes else ('x-big', v[:size])]
        r_ = self.call('s', 'send_headers', sid=st.sid, headers=hs, es=False)
        if r_ is None or not r_.ok or self.halted:
            return
        for _ in range(rng.choice([1, 2, 6])):
            st2 = stt.get(st.sid)
            if st2 is None or st2.state not in ('open', 'hcR') or self.halted:
                return
            room = min(stt.conn_send, st2.send_win, self._max_frame(stt))
            if room <= 0:
                break
            n = rng.choice([room, room, max(room - 1, 1), min(room, 100)])
            self.call('s', 'send_data', sid=st.sid, data=b'p' * n, es=False, pad=None)
            if rng.random() < 0.5:
                self.settle()

    def _op_boundary(self, ep, e, trk, live):
        """Header blocks whose encoded size lands exactly on and around a multiple of the peer's MAX_FRAME_SIZE, sent
        with priority fields (client) - the first frame then holds 5 bytes less than the others.  The size is found the
        way an application could find it: send two blocks, look at what went out, adjust."""
        rng = self.rng
        if not e.client or trk.closed or self.halted:
            return
        mf = self._max_frame(trk)
        lim = trk.peer.get(C.S_MAX_HEADER_LIST_SIZE)
        k = rng.choice([1, 1, 2])
        if lim is not None and k * mf + 400 > lim:
            k = 1
            if mf + 400 > lim:
                return
        base = [(b':method', b'GET'), (b':scheme', b'https'), (b':authority', b'b.example'), (b':path', b'/b')]
        prio = {'pw': 200, 'pd': 0, 'pe': False}

        def send(L):
            sid = max(trk.hi_mine + 2, 1) if trk.hi_mine else 1
            mx = trk.peer.get(C.S_MAX_CONCURRENT_STREAMS)
            if sid > MAXID or (mx is not None and trk.count_open(True) >= mx):
                return None
            # '&' has an 8-bit Huffman code: one byte per character whatever the encoder chooses
            s_ = self.call(ep, 'send_headers', sid=sid, headers=base + [(b'x-big', b'&' * L)], es=True, **prio)
            if s_ is None or not s_.ok:
                return None
            return sum((f.length - (5 if f.type == C.HEADERS else 0)) for f in s_.out_frames if f.type in (C.HEADERS, C.CONTINUATION))
        L0 = k * mf - 300
        if send(L0) is None or self.halted:
            return
        b2 = send(L0 + 1)           # (another value: an identical field could come out of the dynamic table as one byte)
        if b2 is None or self.halted:
            return
        overhead = b2 - (L0 + 1)
        if not (0 <= overhead <= 200):
            return                  # not the plain literal encoding this recipe counts on
        target = k * mf
        for j in rng.sample(range(-7, 4), rng.choice([3, 5, 8])):
            if self.halted:
                return
            L = target - overhead + j
            if L > 0 and (lim is None or L + 400 <= lim):
                send(L)

    def _op_prio(self, ep, e, trk, live):
        rng = self.rng
        if not e.client:
            return
        sid = rng.choice([st.sid for st in trk.streams.values()] + [1, 3, 5, 101, trk.hi_mine + 2])
        kw = {}
        if rng.random() < 0.7:
            kw['pw'] = rng.choice([1, 2, 16, 255, 256])
        if rng.random() < 0.6:
            dep = rng.choice([0, 1, 3, 7, sid + 2, MAXID])
            if dep != sid:
                kw['pd'] = dep
        if rng.random() < 0.5:
            kw['pe'] = rng.random() < 0.5
        self.call(ep, 'prioritize', sid=sid, **kw)

    def _op_winc(self, ep, e, trk, live):
        rng = self.rng
        if rng.random() < 0.4 or not live:
            room = MAXID - trk.conn_recv
            if room < 1:
                return
            inc = min(room, rng.choice([1, 100, 65535, 2 ** 20]))
            self.call(ep, 'increment_flow_control_window', inc=inc, sid=None)
        else:
            cands = [st for st in live if st.state in ('open', 'hcL', 'hcR', 'rsvR')]
            if not cands:
                return
            st = rng.choice(cands)
            room = MAXID - st.recv_win
            if room < 1:
                return
            inc = min(room, rng.choice([1, 100, 65535, 2 ** 20]))
            self.call(ep, 'increment_flow_control_window', inc=inc, sid=st.sid)

    def _op_altsvc(self, ep, e, trk, live):
        rng = self.rng
        if e.client:
            return
        if not trk.any_headers_recv and 'F-POISON' in self.avoid:
            return
        field = rng.choice([b'h2=":443"', b'h2="alt.example:8443"; ma=60', b''])
        if rng.random() < 0.5:
            self.call(ep, 'advertise_alternative_service', field=field, origin=rng.choice([b'https://example.com', b'o']))
        else:
            cands = [st for st in live if not st.mine and st.state in ('open', 'hcR') and st.sent in (NONE, INFO)]
            # (also a stream this server has promised and not answered yet: its origin is the promised request's)
            cands += [st for st in live if st.mine and st.state == 'rsvL' and st.sent in (NONE, INFO)]
            if not cands:
                return
            self.call(ep, 'advertise_alternative_service', field=field, sid=rng.choice(cands).sid)

    def _op_gc(self, ep, e, trk, live):
        self.call(ep, self.rng.choice(['open_outbound_streams', 'open_inbound_streams']))

    def _op_query(self, ep, e, trk, live):
        rng = self.rng
        k = rng.randrange(4)
        if k == 0:
            self.call(ep, 'get_next_available_stream_id')
        elif live:
            st = rng.choice(live)
            self.call(ep, rng.choice(['local_flow_control_window', 'remote_flow_control_window']), sid=st.sid)

    def _op_race(self, ep, e, trk, live):
        """Make the peer's frames for one stream cross this endpoint's RST_STREAM:
        hold the peer->me direction, let the peer talk on the stream, reset it
        here, then let the held frames arrive."""
        rng = self.rng
        w = self.w
        x = w.peer(ep)
        xt = w.eps[x].trk
        cands = [st for st in live if st.state in ('open', 'hcL', 'hcR', 'rsvR') and xt.get(st.sid) is not None
                 and xt.get(st.sid).state != 'closed']
        if not cands or xt.closed:
            return
        st = rng.choice(cands)
        sid = st.sid
        d = w.in_dir(ep)
        self.stalled[d] = max(self.stalled[d], rng.randrange(10, 40))
        for _ in range(rng.randrange(1, 6)):
            if self.halted:
                return
            xs = xt.get(sid)
            if xs is None or xs.state == 'closed':
                break
            self._talk_on(x, w.eps[x], xt, xs)
        if self.halted:
            return
        if not self.eager:
            self.flush(x)
        if rng.random() < 0.3:
            self._op_gc(ep, e, trk, live)
        self.call(ep, 'reset_stream', sid=sid, code=rng.choice([0, 8, 7, 2]))
        if rng.random() < 0.4 and not self.halted:
            self._op_gc(ep, e, trk, live)
        if rng.random() < 0.5:
            self.stalled[d] = 0

    def _talk_on(self, x, xe, xt, xs):
        """One valid action of endpoint x on stream xs (by x's own view)."""
        rng = self.rng
        sid = xs.sid
        mf = self._max_frame(xt)
        hg = self.hg[x]
        server_side = (not xs.mine) or xs.pushed
        choices = []
        if xs.state in ('open', 'hcR', 'rsvL'):
            if server_side and not xe.client:
                if xs.sent in (NONE, INFO):
                    choices += ['final', 'final', 'info'] if xs.state != 'rsvL' else ['final']
                    if xs.state != 'rsvL' and xt.peer.get(C.S_ENABLE_PUSH, 1) and not xs.mine:
                        choices += ['push']
                elif xs.sent == FINAL:
                    choices += ['data', 'data', 'trailers', 'end']
                    if xt.peer.get(C.S_ENABLE_PUSH, 1) and not xs.mine:
                        choices += ['push']
            elif xs.sent == FINAL:
                choices += ['data', 'data', 'trailers', 'end']
        if not self.no_winc or not choices:
            choices += ['winc']
        c = rng.choice(choices)
        if c == 'winc' and self.no_winc:
            return
        if c == 'final':
            if xs.state == 'rsvL':
                lim = xt.peer.get(C.S_MAX_CONCURRENT_STREAMS)
                if lim is not None and xt.count_open(True) >= lim:
                    return
            self.call(x, 'send_headers', sid=sid, headers=hg.response(max_frame=mf), es=rng.random() < 0.2)
        elif c == 'info':
            self.call(x, 'send_headers', sid=sid, headers=hg.response(info=True, max_frame=mf))
        elif c == 'trailers':
            self.call(x, 'send_headers', sid=sid, headers=hg.trailers(mf), es=True)
        elif c == 'end':
            self.call(x, 'end_stream', sid=sid)
        elif c == 'data':
            if self._no_body(xt, xs):
                return
            room = min(xt.conn_send, xs.send_win, mf)
            if room < 0:
                return
            n = rng.choice([0, 1, min(room, 100), min(room, 5000), room])
            pad = rng.choice([None, None, 0, 7, 255])
            if pad is not None and room < n + pad + 1:
                pad = None
            self.call(x, 'send_data', sid=sid, data=b'r' * n, es=rng.random() < 0.15, pad=pad)
        elif c == 'push':
            promised = xt.hi_mine + 2 if xt.hi_mine else 2
            if promised > MAXID:
                return
            s_ = self.call(x, 'push_stream', sid=sid, promised=promised, headers=hg.request(mf, method='GET'))
            if s_ is not None and s_.ok and rng.random() < 0.6 and not self.halted:
                lim = xt.peer.get(C.S_MAX_CONCURRENT_STREAMS)
                if lim is None or xt.count_open(True) < lim:
                    self.call(x, 'send_headers', sid=promised, headers=hg.response(max_frame=mf), es=rng.random() < 0.3)
                    if rng.random() < 0.5 and not self.halted:
                        ps = xt.get(promised)
                        if ps is not None and ps.state == 'hcR' and ps.sent == FINAL:
                            room = min(xt.conn_send, ps.send_win, mf, 200)
                            if room >= 0:
                                self.call(x, 'send_data', sid=promised, data=b'q' * room, es=rng.random() < 0.5)
        else:
            room = MAXID - xs.recv_win
            if room >= 1 and xs.state != 'rsvL':
                self.call(x, 'increment_flow_control_window', inc=min(room, rng.choice([1, 100])), sid=sid)

    def _op_goaway(self, ep, e, trk, live):
        rng = self.rng
        kw = {}
        if rng.random() < 0.5:
            kw['code'] = rng.choice([0, 1, 2, 11])
        if rng.random() < 0.3:
            kw['debug'] = b'bye'
        if rng.random() < 0.2:
            kw['last'] = rng.choice([0, 1, trk.hi_peer])
        self.call(ep, 'close_connection', **kw)

    # -- misuse ------------------------------------------------------------
    def _sid_pool(self, trk):
        rng = self.rng
        pool = [0, 1, 2, 3, 4, MAXID, MAXID - 1, 2 ** 31 + 1, trk.hi_mine + 2, trk.hi_mine + 4,
                trk.hi_peer + 2, 99, 100]
        pool += [st.sid for st in trk.streams.values()] * 3
        return rng.choice(pool)

    def _misuse(self, ep):
        rng = self.rng
        w = self.w
        e = w.eps[ep]
        trk = e.trk
        hg = self.hg[ep]
        mf = self._max_frame(trk)
        sid = self._sid_pool(trk)
        st = trk.get(sid)
        k = rng.randrange(22)
        if self.P.get('misuse_focus') and rng.random() < 0.5:
            k = rng.choice(self.P['misuse_focus'])      # (per-property emphasis inside the misuse catalogue)
        if st is not None and k in (0, 1, 2, 12, 20) and ((ep, sid) in self.cl_left or (ep, sid) in self.nohead
                                                        or self._no_body(trk, st)):
            return      # body-carrying misuse would make the *application* break HTTP semantics (C16's business)
        # FSM-refused misuse poisons the stream/connection FSM (known finding
        # F-POISON): only generated in the confirmation share of runs.
        fsm_ok = self.fsm_misuse or bool(self.P.get('poison_ok'))
        if k == 0:
            hs = rng.choice([hg.request(mf), hg.response(max_frame=mf), hg.trailers(mf), hg.invalid(max_frame=mf)])
            plain_refusal = st is None and ((sid > MAXID and e.client) or (not e.client and sid > 0))
            if not fsm_ok and not plain_refusal and not self._headers_state_ok(trk, sid, st):
                return
            kw = {}
            if rng.random() < 0.2:
                kw['pw'] = rng.choice([0, 1, 256, 257])
            if rng.random() < 0.1:
                kw['pd'] = sid
            self.call(ep, 'send_headers', sid=sid, headers=hs, es=rng.random() < 0.5, **kw)
        elif k == 1:
            early = (not e.client and st is not None and not st.mine and st.state in ('open', 'hcR') and
                     st.sent in (NONE, INFO))
            if early and 'F-DATA-BEFORE-HEADERS' in self.avoid:
                return      # the library lets a server send a body before its headers (open finding): steered around
            early_body = early
            if not fsm_ok and not early_body and not (st is not None and st.state in ('open', 'hcR') and st.sent == FINAL):
                if st is not None or not (sid > (trk.hi_mine if trk.is_mine(sid) else trk.hi_peer)):
                    return
            size = rng.choice([0, 1, 100, trk.conn_send + 1, (st.send_win + 1) if st else 7, mf + 1, mf])
            size = max(0, min(size, 2 ** 17))
            pad = rng.choice([None, None, 0, 255, 256, -1])
            self.call(ep, 'send_data', sid=sid, data=b'x' * size, es=rng.random() < 0.3, pad=pad)
        elif k == 2:
            early = (not e.client and st is not None and not st.mine and st.state in ('open', 'hcR') and
                     st.sent in (NONE, INFO))
            if early and 'F-DATA-BEFORE-HEADERS' in self.avoid:
                return      # the library lets a server send a body before its headers (open finding): steered around
            early_body = early
            if not fsm_ok and not early_body and not (st is not None and st.state in ('open', 'hcR') and st.sent == FINAL):
                return
            self.call(ep, 'end_stream', sid=sid)
        elif k == 3:
            if not fsm_ok and st is not None and st.state == 'closed':
                pass   # closed-stream resets raise StreamClosedError from the closed state: harmless
            if not fsm_ok and not trk.any_headers_sent and not trk.any_headers_recv:
                return
            self.call(ep, 'reset_stream', sid=sid, code=rng.choice([0, 8, 2 ** 32 - 1]))
        elif k == 4:
            recursive = (not e.client and st is not None and st.mine and st.pushed and st.state in ('rsvL', 'hcR'))
            if not fsm_ok and not recursive and (e.client or not (st is not None and not st.mine and st.state in ('open', 'hcR'))):
                return
            promised = rng.choice([trk.hi_mine + 2, 2, 4, 3, MAXID - 1, trk.hi_mine, 0])
            if recursive and rng.random() < 0.6:
                promised = trk.hi_mine + 2
            hs = rng.choice([hg.request(mf), hg.invalid(max_frame=mf), hg.response(max_frame=mf)])
            s_ = self.call(ep, 'push_stream', sid=sid, promised=promised, headers=hs)
            if s_ is not None and not s_.ok and not e.client and promised == trk.hi_mine + 2 and promised <= MAXID:
                self._poke_leftover(ep, promised)
        elif k == 5:
            data = rng.choice([b'', b'1234567', b'123456789', '12345678', b'\x00' * 8, 8, [1, 2, 3, 4, 5, 6, 7, 8], None,
                               bytearray(8)])
            self.call(ep, 'ping', data=data)
        elif k == 6:
            if not fsm_ok and not e.client:
                pass  # RFC1122Error is raised before the FSM is touched
            self.call(ep, 'prioritize', sid=rng.choice([sid, max(sid, 1)]), pw=rng.choice([None, 0, 1, 256, 257, 300]),
                      pd=rng.choice([None, 0, sid, 5]), pe=rng.choice([None, True, False]))
        elif k == 7:
            if self.no_winc:
                return
            inc = rng.choice([0, 1, -1, 2 ** 31 - 1, 2 ** 31, MAXID - trk.conn_recv + 1, 65535])
            if not self.P.get('big_windows', True) and 2 ** 20 < inc <= MAXID:
                inc = 2 ** 31           # (invalid on purpose; valid increments stay <= 2^20 in this profile)
            tsid = rng.choice([None, sid])
            if tsid is not None and not fsm_ok and not (st is not None and st.state != 'closed'):
                if st is not None:
                    return
            self.call(ep, 'increment_flow_control_window', inc=inc, sid=tsid)
        elif k == 8:
            if self.P.get('no_over_ack'):
                return      # applications that acknowledge more than they received are outside C05's premise
            self.call(ep, 'acknowledge_received_data', n=rng.choice([0, 1, 100, -1, 2 ** 31, 32768, 65535, 40000]), sid=sid)
        elif k == 9:
            key = rng.choice(list(BAD_SETTING_VALUES))
            d = {key: rng.choice(BAD_SETTING_VALUES[key])}
            if rng.random() < 0.5:
                d2 = self._settings_dict(ep)
                if rng.random() < 0.5:
                    d2.update(d)
                    d = d2
                else:
                    d.update(d2)
            if trk.acks_received == 0 and 'F-ACK-INITIAL' in self.avoid:
                return
            self.call(ep, 'update_settings', settings=d)
        elif k == 10:
            if not fsm_ok and not e.client and not trk.any_headers_recv:
                return
            field = rng.choice([b'h2=":443"', 'notbytes'])
            which = rng.randrange(3)
            if which == 0:
                # both given (also with values that are falsy): one of the two ways to advertise must be chosen
                self.call(ep, 'advertise_alternative_service', field=field, origin=rng.choice([b'o', b'', b'example.com']),
                          sid=rng.choice([sid, sid, 0]))
            elif which == 1:
                if not fsm_ok and not (st is not None and not st.mine and st.state in ('open', 'hcR') and st.sent in (NONE, INFO)):
                    return
                self.call(ep, 'advertise_alternative_service', field=field, sid=sid)
            else:
                self.call(ep, 'advertise_alternative_service', field=field, origin=b'example.com')
        elif k == 11:
            self.call(ep, rng.choice(['local_flow_control_window', 'remote_flow_control_window']), sid=sid)
        elif k == 12:
            # trailers without END_STREAM / response-ish headers at the wrong time
            if st is None or st.state not in ('open', 'hcR') or st.sent != FINAL:
                return
            # (refused after the state machine has been asked, and rolled back since fix 5deac66: a plain refusal)
            if not e.client and fsm_ok and rng.random() < 0.5:
                # an informational response after the final one (with END_STREAM it looks like trailers to a careless check);
                # refused by the stream state machine, so only where open finding F-POISON is not steered around
                self.call(ep, 'send_headers', sid=sid, headers=hg.response(info=True, max_frame=mf), es=rng.random() < 0.7)
            else:
                self.call(ep, 'send_headers', sid=sid, headers=hg.trailers(mf), es=False)
        elif k == 13:
            # valid-looking headers on a valid stream but an invalid list
            if e.client:
                nsid = trk.hi_mine + 2 if trk.hi_mine else 1
                if nsid > MAXID:
                    return
                if not fsm_ok and 'F-COMMIT-BEFORE-VALIDATE' in self.avoid:
                    return
                self.call(ep, 'send_headers', sid=nsid, headers=hg.invalid(max_frame=mf), es=rng.random() < 0.5)
            else:
                cands = [x for x in trk.streams.values() if not x.mine and x.state in ('open', 'hcR') and x.sent in (NONE, INFO)]
                if not cands:
                    return
                if not fsm_ok and 'F-COMMIT-BEFORE-VALIDATE' in self.avoid:
                    return
                self.call(ep, 'send_headers', sid=rng.choice(cands).sid, headers=hg.invalid(max_frame=mf), es=rng.random() < 0.5)
        elif k == 14:
            if e.client:
                return
            # server priority arguments on a response
            cands = [x for x in trk.streams.values() if not x.mine and x.state in ('open', 'hcR') and x.sent in (NONE, INFO)]
            if not cands:
                return
            if 'F-COMMIT-BEFORE-VALIDATE' in self.avoid and not fsm_ok:
                return
            kw = rng.choice([{'pw': 16}, {'pd': 0}, {'pe': False}, {'pe': True}, {'pd': 3}, {'pw': 1, 'pd': 0, 'pe': False}])
            self.call(ep, 'send_headers', sid=rng.choice(cands).sid, headers=hg.response(max_frame=mf), **kw)
        elif k == 15:
            self.call(ep, 'close_connection', code=rng.choice([0, 2 ** 32 - 1]), last=rng.choice([None, 0, MAXID])) \
                if rng.random() < 0.1 else None
        elif k == 16:
            self.call(ep, 'get_next_available_stream_id')
        elif k == 17:
            if e.client and not fsm_ok and 'F-COMMIT-BEFORE-VALIDATE' in self.avoid:
                return
            # oversize: priority fields on a block near the frame limit (client), DATA at the limit
            if not e.client:
                return
            nsid = trk.hi_mine + 2 if trk.hi_mine else 1
            if nsid > MAXID:
                return
            lim = trk.peer.get(C.S_MAX_CONCURRENT_STREAMS)
            if lim is not None and trk.count_open(True) >= lim:
                return
            hs = [(b':method', b'GET'), (b':scheme', b'https'), (b':authority', b'a'), (b':path', b'/')]
            target = mf - rng.choice([0, 1, 2, 3, 4, 5, 6, 8])
            lim = trk.peer.get(C.S_MAX_HEADER_LIST_SIZE)
            if lim is not None and target // 2 + 400 > lim:
                return
            # literal-without-huffman estimate: value of random lowercase compresses ~ 5/8; use never-matching bytes
            hs.append((b'x-fill', bytes(rng.choice(b'!#$%&*+^`|~') for _ in range(max(1, target // 2)))))
            self.call(ep, 'send_headers', sid=nsid, headers=hs, pw=rng.choice([1, 16]), es=True)
        elif k == 18:
            self.call(ep, 'clear_outbound_data_buffer') if rng.random() < 0.02 else None
        elif k == 19:
            if st is None:
                return
            self.call(ep, 'reset_stream', sid=sid)
        elif k == 20:
            # empty / odd trailer lists
            if st is None or st.state not in ('open', 'hcR') or st.sent != FINAL or not fsm_ok:
                return
            self.call(ep, 'send_headers', sid=sid, headers=[], es=True)
        else:
            self.call(ep, rng.choice(['open_outbound_streams', 'open_inbound_streams']))

    def _aftermath(self, ep):
        """What an application does after one of its calls was refused: it retries properly, carries on as if
        nothing had happened, or carries on as if the call had worked.  A refused call must have changed nothing,
        so on an intact library all of these behave exactly as they would have without the refused call."""
        rng = self.rng
        w = self.w
        e = w.eps[ep]
        trk = e.trk
        hg = self.hg[ep]
        op, a = self.refused[ep].pop(rng.randrange(len(self.refused[ep])))
        if trk.closed or self.halted:
            return
        mf = self._max_frame(trk)
        sid = a.get('sid')
        st = trk.get(sid) if isinstance(sid, int) else None
        live = [x for x in trk.streams.values() if x.state != 'closed']
        k = rng.randrange(6)
        if op == 'send_headers' and isinstance(sid, int) and 0 < sid <= MAXID:
            if k == 0:
                # the proper retry
                if st is not None and st.state in ('open', 'hcR') and st.sent == FINAL and not self.cl_left.get((ep, sid)):
                    self.call(ep, 'send_headers', sid=sid, headers=[('x-trailer', 'retry')], es=True)
                elif st is None and e.client:
                    self._op_open(ep, e, trk, live)
                elif st is not None and not st.mine and st.state in ('open', 'hcR') and st.sent in (NONE, INFO) \
                        and not self._no_body(trk, st):
                    self.call(ep, 'send_headers', sid=sid, headers=hg.response(max_frame=mf, status='200'), es=False)
            elif k == 1:
                # as if the block had gone out: what would follow it (all refused by header validation or by the stream
                # lookup on an intact library - no state machine is asked)
                if w.cfg[ep].get('validate_outbound', True) and \
                        (st is None or (st.sent in (NONE, INFO) and st.state in ('open', 'hcR') and not st.mine)):
                    self.call(ep, 'send_headers', sid=sid, headers=hg.trailers(mf), es=True)
            elif k == 2:
                self.call(ep, 'get_next_available_stream_id')
                self.call(ep, 'open_outbound_streams')
            elif k == 3 and st is None:
                self.call(ep, 'local_flow_control_window', sid=sid)
            elif k == 4 and not e.client and (self.fsm_misuse or self.P.get('aftermath_fsm')):
                self.call(ep, 'advertise_alternative_service', field=b'h2=":443"', sid=sid)
            elif k == 5 and e.client:
                self._op_open(ep, e, trk, live)      # the next request (does the refused one still count as open?)
        elif op == 'push_stream':
            pr = a.get('promised')
            if k == 0:
                self._op_push(ep, e, trk, live)
            elif k == 1 and isinstance(pr, int) and 0 < pr <= MAXID:
                pst = trk.get(pr)
                if pst is None or (pst.mine and pst.state == 'rsvL'):
                    # the promised id: nothing there on an intact library unless it was reserved before
                    self.call(ep, 'send_headers', sid=pr, headers=hg.response(max_frame=mf, status='200'), es=rng.random() < 0.5)
            elif k == 2:
                self.call(ep, 'get_next_available_stream_id')
            elif k == 3 and st is not None and not st.mine and st.state in ('open', 'hcR') and st.sent in (NONE, INFO) \
                    and not self._no_body(trk, st):
                self.call(ep, 'send_headers', sid=sid, headers=hg.response(max_frame=mf, status='200'), es=False)
            elif k == 4 and isinstance(pr, int) and 0 < pr <= MAXID:
                self.call(ep, 'local_flow_control_window', sid=pr)
        elif op in ('send_data', 'end_stream'):
            if k in (0, 1) and e.client:
                self._op_open(ep, e, trk, live)
            elif k == 2:
                self.call(ep, 'open_outbound_streams')
                self.call(ep, 'open_inbound_streams')
            elif k == 3:
                self._op_data(ep, e, trk, live)
            elif k == 4 and isinstance(sid, int) and st is not None:
                self.call(ep, 'local_flow_control_window', sid=sid)
        elif op == 'update_settings':
            if k < 3:
                self.call(ep, 'local_settings')
            else:
                self._op_settings(ep, e, trk, live)

    def _poke_leftover(self, ep, sid):
        """After a refused call that named a fresh stream id: calls that would trip over anything the refused call
        left behind (a ghost stream, a burnt id).  All of them are plain refusals on an intact library."""
        rng = self.rng
        if self.halted or rng.random() < 0.4:
            return
        hg = self.hg[ep]
        for _ in range(rng.choice([1, 2, 3])):
            if self.halted:
                return
            k = rng.randrange(5)
            if k == 0:
                self.call(ep, 'send_headers', sid=sid, headers=rng.choice([hg.request(), hg.response()]), es=rng.random() < 0.3)
            elif k == 1:
                self.call(ep, 'get_next_available_stream_id')
            elif k == 2:
                self.call(ep, 'send_data', sid=sid, data=b'leftover', es=False, pad=None)
            elif k == 3:
                self.call(ep, 'reset_stream', sid=sid, code=0)
            else:
                self.call(ep, 'local_flow_control_window', sid=sid)

    def _headers_state_ok(self, trk, sid, st):
        """Would a send_headers on sid be FSM-legal (so that a refusal, if any,
        comes from validation and not from the stream/connection FSM)?"""
        if st is None:
            return trk.client and trk.is_mine(sid) and sid > trk.hi_mine and 0 < sid <= MAXID
        if st.state in ('open', 'hcR') and (st.sent in (NONE, INFO) or st.sent == FINAL):
            return not (trk.client and not st.mine)
        if st.state == 'rsvL':
            return True
        return False

    # -- faults / adversary: filled in by faults.py -------------------------
    def _fault(self):
        from . import faults
        if self.fork_mode and not self.is_branch:
            self._branch('fault')
            return
        ev = faults.draw(self)
        if ev is not None:
            self.ex(ev)

    def _adversary(self):
        from . import adversary
        if self.fork_mode and not self.is_branch and self.rng.random() < 0.6:
            self._branch('adv')
            return
        ev = adversary.draw(self)
        if ev is not None:
            self.ex(ev)

    MAX_BRANCHES = 16

    def _branch(self, kind):
        """Try one arbitrary adversary frame / byte fault on a deep copy of the whole simulation (both
        connections, trackers, taps, pipes, generator bookkeeping, monitors), let the copy run on for a few
        iterations, collect what its monitors say, and drop it.  The copy's trace is this run's trace so far plus
        the branch's own events: a complete, replayable trace.  The main line draws exactly one number for a
        branch, whatever happens inside it."""
        tag = self.rng.getrandbits(48)
        if self.branch_ctr >= self.MAX_BRANCHES or self.halted:
            return
        self.branch_ctr += 1
        w = self.w
        memo = {}
        for st in w.steps:           # finished steps and executed events are immutable history: shared, not copied
            memo[id(st)] = st
        for ev in w.trace:
            memo[id(ev)] = ev
        b = copy.deepcopy(self, memo)
        b.is_branch = True
        b.rng = random.Random(int.from_bytes(hashlib.sha256(('%d/branch/%d' % (self.seed, tag)).encode()).digest()[:8], 'big'))
        for h_ in b.hg.values():
            h_.rng = b.rng
        b.adv_wild_from = 0
        b.P = dict(b.P)
        b.P['adv_plausible'] = 0.0
        n0 = len(b.w.steps)
        b.ex({'ev': 'note', 'what': 'branch', 'n': self.branch_ctr, 'kind': kind})
        if kind == 'adv':
            from . import adversary
            ev = None
            for _ in range(3):
                ev = adversary.draw(b)
                if ev is not None:
                    break
        else:
            from . import faults
            ev = faults.draw(b)
        if ev is None:
            return
        b.ex(ev)
        # deliver what is queued towards the victim, one dispatch unit at a time where the network allows
        d = ev.get('dir')
        if d in b.w.pipes:
            cap = b.rng.choice([1, 1, 1, 2, 0])
            for _ in range(40):
                if b.halted or not b.w.pipes[d].backlog:
                    break
                b.deliver(d, 1 << 30, cap)
        for _ in range(b.rng.choice([0, 3, 8, 20])):
            if b.halted:
                break
            b._iterate()
        for m in b.w.monitors:
            m.finish(b.w)
        self.branch_steps += len(b.w.steps) - n0
        if self.branch_cb is not None:
            self.branch_cb(b)
        vs = [v for m in b.w.monitors for v in m.violations]
        if vs and not self.branch_findings:
            self.branch_findings.append((vs, list(b.w.trace)))
        for mb, mm in zip(b.w.monitors, self.w.monitors):
            for k, v in mb.probes.items():
                if v > mm.probes.get(k, 0):
                    self.branch_probes[k] += v - mm.probes.get(k, 0)
            if mb.nontrivial:
                self.branch_nontrivial = True
        for k, v in b.w.fault_fired.items():
            dv = v - self.w.fault_fired.get(k, 0)
            if dv > 0:
                self.branch_faults[k] = self.branch_faults.get(k, 0) + dv

    # -- upgrade -----------------------------------------------------------
    def _start_upgrade(self):
        rng = self.rng
        w = self.w
        # the client's settings, installed the only way the API offers before an upgrade
        self.upgrade_view_only = False
        if rng.random() < 0.7:
            d = {}
            keys = [C.S_ENABLE_PUSH, C.S_MAX_CONCURRENT_STREAMS, C.S_ENABLE_CONNECT_PROTOCOL, C.S_INITIAL_WINDOW_SIZE]
            if rng.random() < self.P.get('upgrade_all_keys', 0.0):
                # settings from which the client derives decoder / frame-buffer limits: the server uses them at once
                # (HEADER_TABLE_SIZE stays at its default: the upgrade hands every setting to the server twice - header
                # and preamble SETTINGS frame - and hpack 4.2 loses the pending table-size update when the same size is
                # set twice, DESIGN section 8)
                keys = [k for k in SETTING_VALUES if k != C.S_HEADER_TABLE_SIZE]
            if rng.random() < self.P.get('upgrade_full_space', 0.0):
                # whole valid space: only the settings view is judged, no continuation program
                keys = list(SETTING_VALUES)
                self.upgrade_view_only = True
            for k in rng.sample(sorted(set(keys)), rng.randrange(0, len(set(keys)) + 1)):
                vals = list(SETTING_VALUES[k])
                if self.upgrade_view_only:
                    vals += {C.S_INITIAL_WINDOW_SIZE: [2 ** 31 - 1], C.S_MAX_FRAME_SIZE: [2 ** 24 - 1],
                             C.S_MAX_HEADER_LIST_SIZE: [0, 2 ** 32 - 1], C.S_HEADER_TABLE_SIZE: [2 ** 32 - 1],
                             C.S_MAX_CONCURRENT_STREAMS: [2 ** 32 - 1]}.get(k, [])
                d[k] = rng.choice(vals)
            if d:
                self.call('c', 'set_local_settings', settings=d)
                if C.S_HEADER_TABLE_SIZE in d:
                    # (counts as a change of HEADER_TABLE_SIZE in flight for the hpack 4.2 guard: no second change
                    # before the server's first header block has arrived)
                    self.table_state['c'] = 'wait_block'
        s = self.call('c', 'initiate_upgrade_connection')
        hdr = s.ret if s is not None and s.ok else None
        import base64
        if rng.random() < self.P.get('upgrade_bad_header', 0.0):
            # an HTTP2-Settings header written by something else than this library: boundary and out-of-range values
            keys = rng.sample([1, 2, 3, 4, 5, 6, 8, 9, 0x7fff], rng.choice([1, 1, 2, 3]))
            pairs = []
            for k in keys:
                pool = list(BAD_SETTING_VALUES.get(k, [])) * 2 + list(SETTING_VALUES.get(k, [0, 1, 2 ** 32 - 1]))
                pool += {C.S_INITIAL_WINDOW_SIZE: [2 ** 31 - 1], C.S_MAX_FRAME_SIZE: [2 ** 24 - 1, 16384]}.get(k, [])
                pairs.append((k, rng.choice(pool)))
            raw = b''.join(k.to_bytes(2, 'big') + v.to_bytes(4, 'big') for k, v in pairs)
            hdr2 = base64.urlsafe_b64encode(raw).rstrip(b'=')
            self.call('s', 'initiate_upgrade_connection', settings_header=hdr2, _pairs=pairs)
            self.upgrade_view_only = True
            return
        pairs = []
        if hdr:
            raw = base64.urlsafe_b64decode(hdr)
            pairs = [(int.from_bytes(raw[i:i + 2], 'big'), int.from_bytes(raw[i + 2:i + 6], 'big')) for i in range(0, len(raw) - 5, 6)]
        self.call('s', 'initiate_upgrade_connection', settings_header=hdr, _pairs=pairs)
        # what each side believes about the client's settings (public mappings)
        self.call('c', 'local_settings')
        self.call('s', 'remote_settings')
        if rng.random() < 0.5:
            self.call('c', 'get_next_available_stream_id')
            self.call('s', 'get_next_available_stream_id')

    # -- epilogue probe (bounded liveness) -----------------------------------
    def _epilogue(self):
        w = self.w
        self.ex({'ev': 'note', 'what': 'quiesce'})
        self.settle()
        if self.halted:
            return
        # acknowledge everything received
        for ep in ('c', 's'):
            for sid, n in self.unacked[ep]:
                if self.halted:
                    return
                self.ex({'ev': 'call', 'ep': ep, 'op': 'acknowledge_received_data', 'a': {'n': n, 'sid': sid}})
            self.unacked[ep] = []
        self.settle()
        c, s = w.eps['c'].trk, w.eps['s'].trk
        if c.closed or s.closed or self.halted:
            return
        sid = c.hi_mine + 2 if c.hi_mine else 1
        lim = c.peer.get(C.S_MAX_CONCURRENT_STREAMS)
        if sid > MAXID or (lim is not None and c.count_open(True) >= lim):
            return
        self.ex({'ev': 'note', 'what': 'epilogue', 'sid': sid})
        req = [(b':method', b'POST'), (b':scheme', b'https'), (b':authority', b'epilogue.example'), (b':path', b'/epilogue')]
        st = self.ex({'ev': 'call', 'ep': 'c', 'op': 'send_headers', 'a': {'sid': sid, 'headers': req}})
        room = min(c.conn_send, c.peer[C.S_INITIAL_WINDOW_SIZE], c.peer[C.S_MAX_FRAME_SIZE], 100)
        self.ex({'ev': 'call', 'ep': 'c', 'op': 'send_data', 'a': {'sid': sid, 'data': b'Q' * max(room, 0), 'es': True}})
        self.settle()
        if self.halted:
            return
        self.ex({'ev': 'call', 'ep': 's', 'op': 'send_headers', 'a': {'sid': sid, 'headers': [(b':status', b'200'), (b'x-epilogue', b'1')]}})
        room = min(s.conn_send, s.peer[C.S_INITIAL_WINDOW_SIZE], s.peer[C.S_MAX_FRAME_SIZE], 100)
        self.ex({'ev': 'call', 'ep': 's', 'op': 'send_data', 'a': {'sid': sid, 'data': b'R' * max(room, 0)}})
        self.ex({'ev': 'call', 'ep': 's', 'op': 'send_headers', 'a': {'sid': sid, 'headers': [(b'x-epilogue-trailer', b'1')], 'es': True}})
        self.settle()
        self.ex({'ev': 'note', 'what': 'epilogue-end', 'sid': sid})
