"""C19 - a closed connection stays quiet."""
from .base import Monitor
from .. import codec as C

EMITTING = ('send_headers', 'send_data', 'end_stream', 'reset_stream', 'push_stream', 'ping', 'prioritize',
            'increment_flow_control_window', 'update_settings', 'advertise_alternative_service',
            'initiate_connection', 'initiate_upgrade_connection')


class C19(Monitor):
    prop = 'C19'
    name = 'closed-quiet'

    def start(self, w):
        self.after = {'c': [0, 0], 's': [0, 0]}

    def on_step(self, w, s):
        if not s.snap['closed']:
            return
        n = self.after[s.ep]
        if s.kind == 'call':
            n[0] += 1
        elif s.units:
            n[1] += 1
        if n[0] >= 3 and n[1] >= 1:
            self.nontrivial = True
        self.probe('steps_after_close')
        for f in s.out_frames:
            if f.type != C.GOAWAY:
                self.fail('frame-after-close', '%s emitted on a closed connection' % f.name, s,
                          op=s.op, how=s.snap['closed_how'])
                return
        if s.kind == 'call' and s.op in EMITTING:
            if s.ok:
                self.fail('call-after-close', '%s succeeded on a closed connection' % s.op, s,
                          how=s.snap['closed_how'])
            elif not s.exc['proto'] and s.exc['type'] not in ('ValueError', 'TypeError', 'RFC1122Error'):
                self.fail('call-after-close-exception', '%s raised %s on a closed connection' % (s.op, s.exc['type']), s)
