"""Monitor base class: one monitor decides one property."""
import collections


class Violation:
    def __init__(self, prop, monitor, kind, detail, step=None, facts=None):
        self.prop = prop
        self.monitor = monitor
        self.kind = kind
        self.detail = detail
        self.step = step
        self.facts = facts or {}

    @property
    def signature(self):
        return (self.prop, self.monitor, self.kind, self.detail)

    def as_dict(self):
        return {'property': self.prop, 'monitor': self.monitor, 'kind': self.kind,
                'detail': self.detail, 'step': self.step, 'facts': self.facts}

    def __repr__(self):
        return 'Violation(%s %s %s %s step=%s %s)' % (self.prop, self.monitor, self.kind,
                                                      self.detail, self.step, self.facts)


class Monitor:
    prop = None
    name = None

    def __init__(self):
        self.violations = []
        self.probes = collections.Counter()
        self.halt = False
        self.nontrivial = False

    def start(self, w):
        pass

    def on_step(self, w, s):
        pass

    def finish(self, w):
        pass

    def fail(self, kind, detail, step=None, **facts):
        self.violations.append(Violation(self.prop, self.name or type(self).__name__, kind, detail,
                                         step.idx if step is not None else None, facts))

    def probe(self, name, n=1):
        self.probes[name] += n
