#!/venv/bin/python
"""Verify a sub-agent's seeded change independently and file it under /verif/seeded/<id>/.
usage: tools_seeded.py <worktree> <prop> <n>      (n = 1 -> patch.diff/demo.py, 2 -> patch2.diff/demo2.py)"""
import json, os, re, shutil, subprocess, sys

def sh(cmd, **kw):
    return subprocess.run(cmd, shell=True, capture_output=True, text=True, **kw)

def main():
    wt, prop, n = sys.argv[1], sys.argv[2], sys.argv[3]
    suf = '' if n == '1' else n
    patch = os.path.join(wt, 'patch%s.diff' % suf)
    demo = os.path.join(wt, 'demo%s.py' % suf)
    if not (os.path.exists(patch) and os.path.exists(demo)):
        print('MISSING files in', wt, suf); return 1
    letters = os.environ.get('SEED_LETTERS', 'ab')      # second round of sub-agents: SEED_LETTERS=cd
    sid = '%s-%s' % (prop, letters[0] if n == '1' else letters[1])
    scratch = '/tmp/verify-%s' % sid
    sh('git -C /repo worktree remove --force %s' % scratch)
    r = sh('git -C /repo worktree add -q %s HEAD' % scratch)
    assert r.returncode == 0, r.stderr
    try:
        d = open(demo).read()
        d2 = re.sub(r"""['"]%s/src/?['"]""" % re.escape(wt), "__import__('os').environ.get('H2_SRC', '/repo/src')", d)
        if d2 == d:
            print('WARNING: demo does not reference %s/src literally' % wt)
        tmpdemo = os.path.join(scratch, 'demo_under_test.py')
        open(tmpdemo, 'w').write(d2)
        env = 'H2_SRC=%s/src PYTHONPATH=%s/src' % (scratch, scratch)
        r0 = sh('cd %s && %s timeout 300 /venv/bin/python demo_under_test.py' % (scratch, env))
        a = sh('git -C %s apply %s' % (scratch, patch))
        if a.returncode != 0:
            print(sid, 'PATCH DOES NOT APPLY', a.stderr[-300:]); return 1
        r1 = sh('cd %s && %s timeout 300 /venv/bin/python demo_under_test.py' % (scratch, env))
        t = sh("cd %s && PYTHONPATH=%s/src /venv/bin/python -m pytest -q -p no:cacheprovider --timeout=900 2>&1 | grep -E '^FAILED|passed|failed'" % (scratch, scratch))
        failed = sorted(re.sub(r' - .*', '', l) for l in t.stdout.splitlines() if l.startswith('FAILED'))
        base = sorted(l.strip() for l in open('/verif/baseline_failed.txt'))
        tests_ok = failed == base and '1403 passed' in t.stdout
        touched = sh('git -C %s diff --stat' % scratch).stdout
        only_src = all(('src/h2/' in l) for l in sh('git -C %s diff --name-only' % scratch).stdout.split())
        print(sid, 'demo clean exit=%d, demo mutated exit=%d, tests %s, only src/h2 touched=%s' % (r0.returncode, r1.returncode, 'BASELINE' if tests_ok else 'DIFFER: ' + t.stdout[-300:], only_src))
        ok = r0.returncode == 0 and r1.returncode == 1 and tests_ok and only_src
        if not ok:
            print('  clean out:', r0.stdout[-300:], r0.stderr[-300:]); print('  mutated out:', r1.stdout[-300:], r1.stderr[-200:])
            return 1
        dst = '/verif/seeded/%s' % sid
        os.makedirs(dst, exist_ok=True)
        shutil.copy(patch, os.path.join(dst, 'patch.diff'))
        open(os.path.join(dst, 'demo.py'), 'w').write(d2)
        notes = os.path.join(wt, 'notes.md')
        if os.path.exists(notes):
            shutil.copy(notes, os.path.join(dst, 'notes.md'))
        meta = {'id': sid, 'properties': [prop], 'source': 'independent sub-agent given only the property text and a scratch worktree',
                'needs_to_manifest': '(see notes.md)',
                'verified': {'demo_on_unchanged_tree_exit': r0.returncode, 'demo_with_change_exit': r1.returncode,
                             'test_suite_with_change': '1403 passed, 11 baseline failures (identical set)',
                             'how': 'tools_seeded.py: fresh git worktree of /repo HEAD; demo with H2_SRC pointing at it; git apply patch; demo again; pinned pytest command with PYTHONPATH=<worktree>/src',
                             'demo_output_with_change': (r1.stdout + r1.stderr)[-400:]},
                'files_changed': touched.strip().splitlines()[:-1]}
        json.dump(meta, open(os.path.join(dst, 'meta.json'), 'w'), indent=1)
        print('  filed as', dst)
        return 0
    finally:
        sh('git -C /repo worktree remove --force %s' % scratch)

sys.exit(main())
