"""C17 - arbitrary peer bytes never produce a non-protocol exception."""
from .base import Monitor


class C17(Monitor):
    prop = 'C17'
    name = 'recv-exception'

    def on_step(self, w, s):
        if s.kind != 'recv':
            return
        self.probe('recv')
        if s.tainted:
            self.probe('recv_tainted')
            self.nontrivial = True
        if s.ok:
            if not isinstance(s.raw_events, list):
                self.fail('bad-return', type(s.raw_events).__name__, s)
            return
        self.probe('recv_raised')
        if not s.exc['proto']:
            self.fail('non-protocol-exception', '%s@%s' % (s.exc['type'], s.exc['where']), s,
                      exc=s.exc['type'], where=s.exc['where'])
