"""C08 - the library refuses to emit messages that violate HTTP/2 message rules."""
from .base import Monitor
from .. import codec as C
from ..model import NONE, INFO, FINAL, TRAILERS, is_info

ORDER_OPS = ('send_headers', 'send_data', 'end_stream', 'push_stream', 'prioritize', 'advertise_alternative_service')


class C08(Monitor):
    prop = 'C08'
    name = 'message-order'

    def on_step(self, w, s):
        e = w.eps[s.ep]
        client = e.client
        if s.kind == 'call' and s.op in ORDER_OPS:
            self.probe('order_call')
            if not s.ok:
                self.nontrivial = True
        for f in s.out_frames:
            t = f.type
            if client and t in (C.PUSH_PROMISE, C.ALTSVC):
                self.fail('role', 'client emitted %s' % f.name, s)
            if not client and t == C.PRIORITY:
                self.fail('role', 'server emitted PRIORITY', s)
            if s.kind != 'call':
                continue
            pre = (s.pre or {}).get(f.sid)
            if t == C.HEADERS and f.block_frames is not None:
                if f.prio is not None and not client:
                    self.fail('role', 'server emitted priority fields', s)
                hs = [(n, v) for n, v, _ in (f.headers or [])]
                if pre is None:
                    if not client:
                        self.fail('server-opened-stream', 'server emitted HEADERS on a stream it neither received nor promised', s,
                                  sid=f.sid)
                    continue
                if pre.state == 'rsvL':
                    continue
                opener = pre.mine and not pre.pushed
                if opener:
                    if pre.sent == FINAL and not f.end_stream:
                        self.fail('trailers-without-end', 'second header block without END_STREAM', s, sid=f.sid)
                    elif pre.sent == TRAILERS:
                        self.fail('headers-after-trailers', 'header block after trailers', s, sid=f.sid)
                else:
                    if pre.sent in (NONE, INFO):
                        # the first block that is not informational is the final response: a block without :status
                        # here is a trailer block sent before any response (with outbound validation on, the library
                        # knows what it is emitting)
                        if w.cfg[s.ep].get('validate_outbound', True) and not any(n == b':status' for n, _ in hs) \
                                and f.headers is not None and not f.hpack_error:
                            self.fail('trailers-before-final-headers', 'a header block without :status was emitted before any final response', s,
                                      sid=f.sid, end_stream=f.end_stream)
                    elif pre.sent == FINAL:
                        if is_info(hs):
                            self.fail('info-after-final', 'informational response after the final response', s, sid=f.sid)
                        elif not f.end_stream:
                            self.fail('trailers-without-end', 'trailers without END_STREAM', s, sid=f.sid)
                    else:
                        self.fail('headers-after-trailers', 'header block after trailers', s, sid=f.sid)
            elif t == C.DATA:
                if pre is None:
                    self.fail('data-on-unknown-stream', 'DATA emitted on a stream that was never opened', s, sid=f.sid)
                elif pre.sent in (NONE, INFO):
                    self.fail('body-before-final-headers', '%s emitted DATA%s before the final headers' % (
                        'client' if client else 'server', ' (END_STREAM)' if f.end_stream else ''), s, sid=f.sid, op=s.op)
                elif pre.sent == TRAILERS:
                    self.fail('data-after-trailers', 'DATA after trailers', s, sid=f.sid)
        # refusals must be h2 protocol errors
        if s.kind == 'call' and s.op in ORDER_OPS and not s.ok:
            x = s.exc
            if not x['h2'] and x['type'] not in ('ValueError', 'TypeError'):
                self.fail('refusal-type', '%s refused with %s' % (s.op, x['type']), s)
