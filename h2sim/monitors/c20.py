"""C20 - frames racing a local stream reset never break the connection."""
from .base import Monitor
from .. import codec as C
from .. import rules

RACE_TYPES = (C.HEADERS, C.DATA, C.WINDOW_UPDATE, C.RST_STREAM, C.PUSH_PROMISE)


class C20(Monitor):
    prop = 'C20'
    name = 'reset-race'

    def start(self, w):
        self.knob = w.cfg['knobs'].get('MAX_CLOSED_STREAMS', 65536)
        self.kinds = {'c': set(), 's': set()}
        self.hdr_after_reset = {'c': False, 's': False}
        self.lost_data = {'c': 0, 's': 0}
        self.manual = {'c': False, 's': False}
        self.gc_after_reset = {'c': False, 's': False}

    def on_step(self, w, s):
        e = w.eps[s.ep]
        trk = e.trk
        if s.kind == 'call':
            if s.op == 'increment_flow_control_window' and s.ok:
                self.manual[s.ep] = True
            if s.op in ('open_outbound_streams', 'open_inbound_streams') and trk.local_resets:
                self.gc_after_reset[s.ep] = True
            return
        if s.snap['closed'] or s.tainted or s.quirk:
            return
        raced = []
        for i, f in enumerate(s.units):
            pre = s.pre[i]
            if f.type not in RACE_TYPES or f.bad is not None:
                continue
            if pre is None or pre.state != 'closed' or pre.closed_by != 'rst_sent':
                continue
            if rules.maybe_forgotten(trk, pre, self.knob):
                self.probe('maybe_forgotten_skipped')
                continue
            raced.append((i, f, pre))
        if not raced:
            # a later header block must still decode (compression context kept in sync)
            if self.hdr_after_reset[s.ep] and any(u.type in (C.HEADERS, C.PUSH_PROMISE) for u in s.units):
                if s.ok:
                    self.probe('block_after_raced_headers')
                elif s.exc['code'] == C.COMPRESSION_ERROR or (s.exc['where'] or '').endswith('_decode_headers'):
                    self.fail('compression-desync', 'header block after frames on a reset stream failed to decode', s)
            return
        for i, f, pre in raced:
            self.kinds[s.ep].add(f.type)
            self.probe('raced_' + f.name)
            if pre.pushed:
                self.probe('raced_on_refused_promise')
            if f.type == C.HEADERS:
                self.hdr_after_reset[s.ep] = True
            if f.type == C.DATA:
                self.lost_data[s.ep] += f.fc_len
        if len(self.kinds[s.ep]) >= 2:
            self.nontrivial = True
        if not s.ok:
            # attribute only when exact
            if s.exact:
                i, f, pre = raced[0]
                # flow control violations are the peer's fault whatever the stream state
                if f.type == C.DATA and f.fc_len and f.fc_len > s.snap['conn_recv']:
                    return
                # so is a header block of more frames than the CONTINUATION cap (C27)
                if f.block_frames is not None and len(f.block_frames) > w.cfg['knobs'].get('CONTINUATION_BACKLOG', 64):
                    return
                self.fail('connection-error', '%s on a stream this endpoint had reset caused %s' % (f.name, s.exc['type']), s,
                          sid=f.sid, where=s.exc['where'], code=s.exc['code'], pushed=pre.pushed,
                          collected=self.gc_after_reset[s.ep])
            return
        sids = set(f.sid for _, f, _ in raced)
        for ev in s.events:
            sid = ev.get('stream_id')
            if ev['t'] == 'PriorityUpdated':
                continue
            if sid in sids or ev.get('parent_stream_id') in sids:
                self.fail('event-on-reset-stream', '%s reported for a stream this endpoint had reset' % ev['t'], s, sid=sid)
                return

    def finish(self, w):
        # DATA on reset streams must have been handed back to the connection window
        for ep in ('c', 's'):
            trk = w.eps[ep].trk
            if self.manual[ep] or trk.closed or self.lost_data[ep] < 40000:
                continue
            self.probe('lost_data_credit_checked')
            if trk.conn_recv < 65535 - 65535 // 2 - self._unacked(w, ep) - 2:
                self.fail('window-not-replenished', 'DATA on reset streams was not credited back to the connection window', None,
                          window=trk.conn_recv, lost=self.lost_data[ep])

    def _unacked(self, w, ep):
        # bytes delivered to the application and not acknowledged are not the library's debt
        recv = 0
        acked = 0
        for s in w.eps[ep].log:
            if s.kind == 'recv' and s.events:
                for ev in s.events:
                    if ev['t'] == 'DataReceived':
                        recv += ev['flow_controlled_length']
            elif s.kind == 'call' and s.op == 'acknowledge_received_data' and s.ok:
                acked += s.args['n']
        return max(recv - acked, 0)


from .c05 import C05  # noqa: E402


class C20Credit(C05):
    """'DATA among them still replenishes the connection window': the C05
    credit ledger, judged only after DATA arrived on a locally reset stream and
    only for connection-level under-crediting."""
    prop = 'C20'
    name = 'reset-credit'

    def start(self, w):
        super().start(w)
        self.reset_data = {'c': 0, 's': 0}
        self.cur = None

    def on_step(self, w, s):
        ep = s.ep
        self.cur = ep
        if s.kind == 'call' and s.op == 'acknowledge_received_data' and s.ok:
            n, sid = s.args['n'], s.args['sid']
            if self.acked[ep].get(sid, 0) + n > self.recv[ep].get(sid, 0):
                self.manual[ep] = True      # over-acknowledging applications are outside the ledger's premise
        if s.kind == 'recv' and not s.snap['closed']:
            for i, f in enumerate(s.units):
                pre = s.pre[i]
                if (f.type == C.DATA and not f.bad and f.fc_len and pre is not None and pre.state == 'closed'
                        and pre.closed_by == 'rst_sent'):
                    self.reset_data[ep] += f.fc_len
                    self.probe('data_on_reset_stream')
        nt = self.nontrivial
        super().on_step(w, s)
        self.nontrivial = nt

    def fail(self, kind, detail, step=None, **facts):
        if kind != 'under-credit' or facts.get('sid') != 0 or not self.reset_data.get(self.cur):
            return
        super().fail('reset-data-not-credited', 'DATA on reset streams was not handed back to the connection window', step,
                     lost=self.reset_data[self.cur], **facts)
