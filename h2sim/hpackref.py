"""Independent HPACK (RFC 7541) decoder + minimal encoder. No imports from hpack/hyperframe/h2."""
from .huffdata import HUFFMAN

STATIC = [
 (b':authority', b''), (b':method', b'GET'), (b':method', b'POST'), (b':path', b'/'), (b':path', b'/index.html'),
 (b':scheme', b'http'), (b':scheme', b'https'), (b':status', b'200'), (b':status', b'204'), (b':status', b'206'),
 (b':status', b'304'), (b':status', b'400'), (b':status', b'404'), (b':status', b'500'), (b'accept-charset', b''),
 (b'accept-encoding', b'gzip, deflate'), (b'accept-language', b''), (b'accept-ranges', b''), (b'accept', b''),
 (b'access-control-allow-origin', b''), (b'age', b''), (b'allow', b''), (b'authorization', b''), (b'cache-control', b''),
 (b'content-disposition', b''), (b'content-encoding', b''), (b'content-language', b''), (b'content-length', b''),
 (b'content-location', b''), (b'content-range', b''), (b'content-type', b''), (b'cookie', b''), (b'date', b''), (b'etag', b''),
 (b'expect', b''), (b'expires', b''), (b'from', b''), (b'host', b''), (b'if-match', b''), (b'if-modified-since', b''),
 (b'if-none-match', b''), (b'if-range', b''), (b'if-unmodified-since', b''), (b'last-modified', b''), (b'link', b''),
 (b'location', b''), (b'max-forwards', b''), (b'proxy-authenticate', b''), (b'proxy-authorization', b''), (b'range', b''),
 (b'referer', b''), (b'refresh', b''), (b'retry-after', b''), (b'server', b''), (b'set-cookie', b''),
 (b'strict-transport-security', b''), (b'transfer-encoding', b''), (b'user-agent', b''), (b'vary', b''), (b'via', b''),
 (b'www-authenticate', b''),
]
assert len(STATIC) == 61

class HpackError(Exception):
    pass

# build decode trie: dict keyed by (code, length) -> symbol
_DEC = {}
for sym, (code, ln) in enumerate(HUFFMAN):
    _DEC[(ln, code)] = sym
_MINLEN = min(l for _, l in HUFFMAN)

def huff_decode(data):
    out = bytearray()
    cur = 0; n = 0
    for byte in data:
        for bit in range(7, -1, -1):
            cur = (cur << 1) | ((byte >> bit) & 1); n += 1
            if n >= _MINLEN:
                sym = _DEC.get((n, cur))
                if sym is not None:
                    if sym == 256:
                        raise HpackError('EOS in huffman string')
                    out.append(sym); cur = 0; n = 0
                elif n > 30:
                    raise HpackError('bad huffman code')
    # padding: must be < 8 bits, all ones
    if n > 7 or cur != (1 << n) - 1:
        raise HpackError('bad huffman padding')
    return bytes(out)

def dec_int(data, pos, prefix):
    if pos >= len(data): raise HpackError('truncated int')
    mask = (1 << prefix) - 1
    v = data[pos] & mask; pos += 1
    if v < mask: return v, pos
    shift = 0
    while True:
        if pos >= len(data): raise HpackError('truncated int')
        b = data[pos]; pos += 1
        v += (b & 0x7f) << shift; shift += 7
        if not b & 0x80: break
        if shift > 63: raise HpackError('int too long')
    return v, pos

def dec_str(data, pos):
    if pos >= len(data): raise HpackError('truncated string')
    huff = data[pos] & 0x80
    ln, pos = dec_int(data, pos, 7)
    if pos + ln > len(data): raise HpackError('truncated string')
    raw = bytes(data[pos:pos+ln]); pos += ln
    return (huff_decode(raw) if huff else raw), pos

class RefDecoder:
    def __init__(self, max_size=4096):
        self.dyn = []          # newest first
        self.size = 0
        self.max_size = max_size        # current dynamic table max (set by encoder size updates)
        self.limit = max_size           # protocol limit (SETTINGS_HEADER_TABLE_SIZE announced by the decoder's side)
    def _evict(self):
        while self.size > self.max_size and self.dyn:
            n, v = self.dyn.pop(); self.size -= len(n) + len(v) + 32
    def _add(self, n, v):
        self.dyn.insert(0, (n, v)); self.size += len(n) + len(v) + 32
        self._evict()
        if len(n) + len(v) + 32 > self.max_size:
            self.dyn = []; self.size = 0
    def _get(self, idx):
        if idx == 0: raise HpackError('index 0')
        if idx <= 61: return STATIC[idx-1]
        i = idx - 62
        if i >= len(self.dyn): raise HpackError('index out of table')
        return self.dyn[i]
    def decode(self, block):
        """returns list of (name, value, mode) mode in {'indexed','incremental','without','never'}, plus size updates seen"""
        out = []; updates = []
        pos = 0; data = block
        seen_field = False
        while pos < len(data):
            b = data[pos]
            if b & 0x80:
                idx, pos = dec_int(data, pos, 7)
                n, v = self._get(idx); out.append((n, v, 'indexed')); seen_field = True
            elif b & 0x40:
                idx, pos = dec_int(data, pos, 6)
                if idx: n = self._get(idx)[0]
                else: n, pos = dec_str(data, pos)
                v, pos = dec_str(data, pos)
                self._add(n, v); out.append((n, v, 'incremental')); seen_field = True
            elif b & 0x20:
                if seen_field: raise HpackError('size update after field')
                sz, pos = dec_int(data, pos, 5)
                if self.limit is not None and sz > self.limit: raise HpackError('size update above limit')
                self.max_size = sz; self._evict(); updates.append(sz)
            else:
                never = bool(b & 0x10)
                idx, pos = dec_int(data, pos, 4)
                if idx: n = self._get(idx)[0]
                else: n, pos = dec_str(data, pos)
                v, pos = dec_str(data, pos)
                out.append((n, v, 'never' if never else 'without')); seen_field = True
        return out, updates

# minimal encoder for the adversary stub: literals without indexing, no huffman (plus helpers)
def enc_int(v, prefix, flags=0):
    mask = (1 << prefix) - 1
    if v < mask: return bytes([flags | v])
    out = bytearray([flags | mask]); v -= mask
    while v >= 128:
        out.append((v & 0x7f) | 0x80); v >>= 7
    out.append(v)
    return bytes(out)
def enc_str(s): return enc_int(len(s), 7) + s
def enc_literal(n, v, mode='without'):
    first = {'without': 0x00, 'never': 0x10, 'incremental': 0x40}[mode]
    prefix = 6 if mode == 'incremental' else 4
    return enc_int(0, prefix, first) + enc_str(n) + enc_str(v)


def header_list_size(pairs):
    """RFC 7540 6.5.2 size of a header list: sum of len(name)+len(value)+32."""
    return sum(len(n) + len(v) + 32 for n, v in pairs)


_ENC = None


def huff_encode(data):
    acc = 0
    nbits = 0
    for b in data:
        code, ln = HUFFMAN[b]
        acc = (acc << ln) | code
        nbits += ln
    pad = (8 - nbits % 8) % 8
    acc = (acc << pad) | ((1 << pad) - 1)
    nbits += pad
    return acc.to_bytes(nbits // 8, 'big') if nbits else b''


def enc_str_h(s):
    h = huff_encode(s)
    return enc_int(len(h), 7, 0x80) + h


class RefEncoder:
    """Small encoder that keeps a dynamic table in step with a RefDecoder.

    Used by the adversary stub / inject faults to build decodable (or
    deliberately undecodable) blocks against the tap's view of the table."""

    def __init__(self, max_size=4096):
        self.t = RefDecoder(max_size)

    def encode(self, headers, rng=None):
        out = bytearray()
        for n, v in headers:
            mode = 'without'
            if rng is not None:
                r = rng.random()
                mode = 'incremental' if r < 0.4 else ('never' if r < 0.5 else 'without')
            idx = None
            full = None
            for i, (sn, sv) in enumerate(STATIC):
                if sn == n:
                    if idx is None:
                        idx = i + 1
                    if sv == v:
                        full = i + 1
                        break
            if full is None:
                for i, (dn, dv) in enumerate(self.t.dyn):
                    if dn == n and dv == v:
                        full = 62 + i
                        break
                    if dn == n and idx is None:
                        idx = 62 + i
            if full is not None and mode != 'never' and (rng is None or rng.random() < 0.8):
                out += enc_int(full, 7, 0x80)
                continue
            first = {'without': 0x00, 'never': 0x10, 'incremental': 0x40}[mode]
            prefix = 6 if mode == 'incremental' else 4
            use_idx = idx if (idx is not None and (rng is None or rng.random() < 0.7)) else 0
            out += enc_int(use_idx, prefix, first)
            huff = rng is not None and rng.random() < 0.5
            if not use_idx:
                out += enc_str_h(n) if huff else enc_str(n)
            out += enc_str_h(v) if huff else enc_str(v)
            if mode == 'incremental':
                self.t._add(n, v)
        return bytes(out)
