#!/venv/bin/python
"""Sensitivity: apply a patch (a reverted fix commit, or a seeded change under /verif/seeded/<id>/patch.diff)
to /repo, run the named checks, restore /repo.  Usage:
  tools_mutants.py revert <commit> <prop> [<prop>...]     # natural mutant: the fix reverted
  tools_mutants.py seeded <id> [<prop>...]                # /verif/seeded/<id>/patch.diff (props from meta.json)
  tools_mutants.py all-reverts                            # every fix commit against the properties recorded for it
Prints one line per (mutant, property): DETECTED (exit 1 + VIOLATION) / MISSED (exit 0) / ERROR."""
import json, os, subprocess, sys, time
V = '/verif'
TIER = os.environ.get('MUT_TIER', 'quick')


def sh(cmd, **kw):
    return subprocess.run(cmd, shell=True, capture_output=True, text=True, **kw)


def clean():
    r = sh('git -C /repo status --porcelain -- src')
    return r.stdout.strip() == ''


def run_props(label, props):
    out = []
    for p in props:
        t0 = time.time()
        r = sh('cd %s && ./check %s --tier %s' % (V, p, TIER), timeout=3600)
        viol = [l for l in r.stdout.splitlines() if l.startswith('VIOLATION')]
        sigs = [l.strip() for l in r.stdout.splitlines() if l.strip().startswith('signature:')]
        if r.returncode == 1 and viol:
            st = 'DETECTED'
        elif r.returncode == 0:
            st = 'MISSED'
        else:
            st = 'ERROR(%d)' % r.returncode
        print('%s %s %s %.0fs %s' % (label, p, st, time.time() - t0, (sigs[0][:160] if sigs else (r.stderr[-200:] if st.startswith('ERROR') else ''))), flush=True)
        out.append((p, st))
    return out


def run_margin(label, props):
    out = []
    for p in props:
        r = sh('cd %s && ./check %s --tier %s --margin' % (V, p, TIER), timeout=3600)
        line = [l for l in r.stdout.splitlines() if l.startswith('MARGIN')]
        print('%s %s' % (label, line[0] if line else 'ERROR ' + r.stderr[-200:]), flush=True)
        out.append((p, line[0] if line else 'ERROR'))
    return out


def with_patch(label, patch_cmd, props):
    assert clean(), '/repo working tree is not clean'
    r = sh(patch_cmd)
    if r.returncode != 0:
        print('%s - PATCH-FAILED %s' % (label, r.stderr[-200:]))
        sh('git -C /repo reset -q --hard HEAD')
        return []
    try:
        if os.environ.get('MUT_MARGIN'):
            return run_margin(label, props)
        return run_props(label, props)
    finally:
        sh('git -C /repo reset -q --hard HEAD')
        assert clean()


def fixed_map():
    doc = json.load(open(os.path.join(V, 'known_findings.json')))
    m = {}
    for d in doc['findings']:
        if d.get('status') == 'fixed':
            m.setdefault(d['commit'], [])
            for p in [d['property']] + d.get('also', []):
                if p not in m[d['commit']]:
                    m[d['commit']].append(p)
    return m


def main():
    a = sys.argv[1:]
    if a[0] == 'revert':
        c = a[1]
        with_patch('revert:' + c, 'git -C /repo diff %s~1 %s | git -C /repo apply -R --3way' % (c, c), a[2:])
    elif a[0] == 'patch':
        with_patch('patch:' + os.path.basename(a[1]), 'git -C /repo apply %s' % a[1], a[2:])
    elif a[0] == 'seeded':
        d = os.path.join(V, 'seeded', a[1])
        props = a[2:] or json.load(open(os.path.join(d, 'meta.json')))['properties']
        with_patch('seeded:' + a[1], 'git -C /repo apply %s' % os.path.join(d, 'patch.diff'), props)
    elif a[0] == 'all-reverts':
        only = set(a[1:])
        for c, props in fixed_map().items():
            if only and c not in only:
                continue
            with_patch('revert:' + c, 'git -C /repo diff %s~1 %s | git -C /repo apply -R --3way' % (c, c), props)
    elif a[0] == 'all-seeded':
        for sid in sorted(os.listdir(os.path.join(V, 'seeded'))):
            if os.path.exists(os.path.join(V, 'seeded', sid, 'patch.diff')):
                props = json.load(open(os.path.join(V, 'seeded', sid, 'meta.json')))['properties']
                with_patch('seeded:' + sid, 'git -C /repo apply %s' % os.path.join(V, 'seeded', sid, 'patch.diff'), props)


main()
