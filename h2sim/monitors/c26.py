"""C26 - each received PING is answered exactly once with the same payload."""
from .base import Monitor
from .. import codec as C


class C26(Monitor):
    prop = 'C26'
    name = 'ping'

    def on_step(self, w, s):
        if s.kind == 'call':
            if s.op != 'ping':
                return
            d = s.args['data']
            valid = isinstance(d, bytes) and len(d) == 8
            pings = [f for f in s.out_frames if f.type == C.PING]
            if s.ok:
                if not valid:
                    self.fail('bad-payload-accepted', 'ping() accepted a payload that is not 8 bytes', s)
                if len(s.out_frames) != 1 or len(pings) != 1 or pings[0].ack or pings[0].opaque != d:
                    self.fail('ping-emission', 'ping() did not emit exactly one PING with the payload', s)
            else:
                if s.out:
                    self.fail('ping-emission', 'raising ping() emitted bytes', s)
                if valid and not s.snap['closed'] and not s.exc['proto']:
                    self.fail('valid-ping-refused', 'ping() with an 8-byte payload raised %s' % s.exc['type'], s)
            return
        if not s.ok:
            return
        want_ev = []
        want_ack = []
        for f in s.units:
            if f.type == C.PING and f.bad is None:
                if f.ack:
                    want_ev.append(('PingAckReceived', f.opaque))
                else:
                    want_ev.append(('PingReceived', f.opaque))
                    want_ack.append(f.opaque)
        if any(f.type == C.GOAWAY and f.bad is None for f in s.units):
            # a GOAWAY received in the same call discards output not yet taken (C19)
            want_ack = []
        got_ev = [(e['t'], e['ping_data']) for e in s.events if e['t'] in ('PingReceived', 'PingAckReceived')]
        got_ack = [f.opaque for f in s.out_frames if f.type == C.PING]
        if want_ev:
            self.probe('pings')
            if len(want_ev) > 1 or s.tainted:
                self.nontrivial = True
        if any(f.type == C.PING and not f.ack for f in s.out_frames):
            self.fail('unsolicited-ping', 'receive_data emitted a PING without ACK', s)
        if got_ev != want_ev:
            self.fail('ping-events', 'ping events differ from delivered PING frames', s, got=got_ev, want=want_ev)
        if got_ack != want_ack:
            self.fail('ping-acks', 'PING ACK frames differ from delivered PINGs', s, got=got_ack, want=want_ack)
