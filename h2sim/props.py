"""Per-property check specifications: monitors, profiles, budgets, evidence text."""
import importlib


class Spec:
    def __init__(self, prop, monitor_names, quick, thorough, rule, assumptions=(), overrides=None,
                 budget=(150, 1500), avoid=(), no_avoid=False):
        self.prop = prop
        self.monitor_names = monitor_names
        self.quick = quick
        self.thorough = thorough
        self.rule = rule
        self.assumptions = list(assumptions) + COMMON_ASSUMPTIONS
        self._overrides = overrides or {}
        self._budget = budget
        self.avoid = set(avoid)
        self.no_avoid = no_avoid        # oracle is robust against the open findings: every other run avoids nothing

    def monitors(self):
        out = []
        for name in self.monitor_names:
            modname, cls = name.split(':')
            mod = importlib.import_module('h2sim.monitors.' + modname)
            out.append(getattr(mod, cls)())
        return out

    def overrides(self, profile):
        return self._overrides.get(profile) or self._overrides.get('*')

    def avoid_for(self, sd, opts):
        """Finding triggers steered around in this run (avoidance hints).  One
        run in ten is a confirmation run for this property's own findings."""
        av = set(opts.get('avoid_all', ()))
        if (sd >> 5) % 10 == 0:
            av -= set(opts.get('avoid_own', ()))
        if self.no_avoid and (sd >> 9) % 2 == 0:
            av = set() if self.no_avoid is True else av - set(self.no_avoid)
        return av

    def plan(self, tier):
        return list(self.quick if tier == 'quick' else self.thorough)

    def budget(self, tier):
        return self._budget[0] if tier == 'quick' else self._budget[1]


COMMON_ASSUMPTIONS = [
    'sampled exploration: a clean batch is evidence, not proof',
    'hyperframe 6.1.0 / hpack 4.2.0 as installed are outside the defect scope',
    'oracle codec, reference HPACK decoder and wire tracker are correct (self-tested at setup)',
    'CPython 3.12 random.Random (Mersenne Twister) is deterministic for a given seed',
]

SPECS = {}


def reg(spec):
    SPECS[spec.prop] = spec


reg(Spec('C17', ['c17:C17'],
         quick=[('CORRUPT', 3000), ('ADV', 3000), ('DUPLEX', 1000), ('HDR', 1000)],
         thorough=[('CORRUPT', 40000), ('ADV', 40000), ('DUPLEX', 10000), ('HDR', 10000)],
         overrides={'ADV': {'adv_plausible': 0.4, 'adv_flood': 0.1, 'misuse': 0.15, 'misuse_focus': [0, 0, 4, 1],
                            'at_limit_attempts': 0.4, 'settings_bias': {3: [1, 2, 100]}}},
         rule='one evaluation = one simulated two-endpoint run (seeded workload + schedule + faults); '
              'non-trivial = at least one receive_data call on a direction that a byte/frame fault or the adversary '
              'had touched; distinct = distinct abstract traces (hash of per-step op/frame-type/outcome/event-type sequence)'))

R_RUN = 'one evaluation = one simulated two-endpoint run (seeded workload + schedule + faults); '
R_DISTINCT = '; distinct = distinct abstract traces (hash of the per-step op / frame-type / outcome / event-type sequence)'

reg(Spec('C02', ['c02:C02'],
         quick=[('DUPLEX', 1500), ('HDR', 1500), ('UPGRADE', 300), ('RACE', 500)],
         thorough=[('DUPLEX', 30000), ('HDR', 30000), ('UPGRADE', 5000), ('RACE', 10000)],
         overrides={'*': {'push': 0.15, 'rsv': 1.5, 'misuse': 0.15, 'misuse_focus': [4, 0], 'aftermath': 0.3, 'boundary': 0.25}},
         rule=R_RUN + 'non-trivial = a header block of >= 2 fragments, padding, or priority fields was emitted' + R_DISTINCT))
reg(Spec('C03', ['c03:C03'],
         quick=[('FLOW', 2000), ('RACE', 800), ('DUPLEX', 800)],
         thorough=[('FLOW', 40000), ('RACE', 15000), ('DUPLEX', 15000), ('CORRUPT', 10000)],
         rule=R_RUN + 'non-trivial = a send at the window edge or a send above the window happened' + R_DISTINCT))
reg(Spec('C04', ['c04:C04'],
         quick=[('FLOW', 2000), ('RACE', 800), ('CORRUPT', 600), ('ADV', 600)],
         thorough=[('FLOW', 40000), ('RACE', 15000), ('CORRUPT', 15000), ('ADV', 15000)],
         rule=R_RUN + 'non-trivial = DATA delivered at/over a window edge, or a failing window-changing call' + R_DISTINCT))
reg(Spec('C05', ['c05:C05'],
         quick=[('FLOW', 2500), ('RACE', 1000)],
         thorough=[('FLOW', 50000), ('RACE', 20000)],
         overrides={'*': {'no_manual_winc': True, 'no_over_ack': True, 'ops_boost': {'race': 3}, 'push': 0.15, 'rsv': 1.5}},
         rule=R_RUN + 'non-trivial = an advertised window was driven to zero at least once' + R_DISTINCT,
         assumptions=['applications acknowledge exactly the bytes they received (no manual window increments, no over-acknowledgement): the premise of the property']))
reg(Spec('C07', ['c07:C07'],
         quick=[('ADV', 4000), ('CORRUPT', 3000), ('DUPLEX', 1000)],
         thorough=[('ADV', 50000), ('CORRUPT', 30000), ('DUPLEX', 10000), ('RACE', 10000)],
         overrides={'ADV': {'misuse': 0.15, 'misuse_focus': [0, 0, 4], 'at_limit_attempts': 0.3, 'config_matrix': 0.4},
                    'CORRUPT': {'config_matrix': 0.3}},
         rule=R_RUN + 'non-trivial = events were produced from a direction touched by the adversary or a fault' + R_DISTINCT))
reg(Spec('C18', ['c18:C18'],
         quick=[('CORRUPT', 2000), ('ADV', 2000), ('DUPLEX', 300)],
         thorough=[('CORRUPT', 50000), ('ADV', 50000), ('DUPLEX', 10000)],
         overrides={'ADV': {'adv_plausible': 0.5}},
         rule=R_RUN + 'non-trivial = at least one connection error (receive_data raised ProtocolError)' + R_DISTINCT))
reg(Spec('C19', ['c19:C19'],
         quick=[('CLOSE', 5000), ('CORRUPT', 2000), ('ADV', 1000)],
         thorough=[('CLOSE', 50000), ('CORRUPT', 20000), ('ADV', 20000), ('RACE', 10000)],
         overrides={'CLOSE': {'settings_bias': {4: [3, 50, 1024, 65535]}, 'ops_boost': {'data': 2}}, 'CORRUPT': {'bad_preface': 0.08},
                    'ADV': {'bad_preface': 0.05}},
         rule=R_RUN + 'non-trivial = >= 3 calls and >= 1 received frame after the connection closed' + R_DISTINCT))
reg(Spec('C26', ['c26:C26'],
         quick=[('DUPLEX', 1200), ('CORRUPT', 1200), ('ADV', 1200)],
         thorough=[('DUPLEX', 20000), ('CORRUPT', 20000), ('ADV', 20000)],
         overrides={'*': {'ops_boost': {'ping': 4}, 'ping_burst': 0.15, 'adv_ping_flood': 0.08}},
         rule=R_RUN + 'non-trivial = several PINGs in one receive_data call, or PINGs on a faulted direction' + R_DISTINCT))
reg(Spec('C29', ['c29:C29'],
         quick=[('MISUSE', 5000), ('RACE', 1000), ('FLOW', 1200)],
         thorough=[('MISUSE', 60000), ('RACE', 10000), ('CLOSE', 10000), ('FLOW', 10000)],
         overrides={'*': {'push': 0.15, 'rsv': 1.5}, 'FLOW': {'ops_boost': {'settings': 3}, 'settings_churn': 0.15}},
         rule=R_RUN + 'non-trivial = at least one public call raised' + R_DISTINCT))

reg(Spec('C01', ['c01:C01'],
         quick=[('DUPLEX', 1500), ('RACE', 1200), ('HDR', 800), ('UPGRADE', 400), ('FLOW', 400)],
         thorough=[('DUPLEX', 40000), ('RACE', 40000), ('HDR', 20000), ('UPGRADE', 10000), ('FLOW', 10000)],
         rule=R_RUN + 'non-trivial = >= 2 concurrent streams and >= 1 failed call followed by later traffic and >= 1 mid-frame delivery' + R_DISTINCT,
         overrides={'*': {'matrix_outbound': False, 'small_closed': 0.0, 'small_backlog': False, 'big_windows': False, 'push': 0.12,
                          'rsv': 1.0}},
         assumptions=['closed-stream memory at its default (65536): frames on forgotten streams are the business of C20',
                      'senders run with the default outbound validation and normalisation (a sender with validation off may emit blocks the peer must refuse: C15)',
                      'applications are HTTP-semantically sane in calls the generator classes as valid (declared content-length equals body, no body on no-content responses, header lists within the peer MAX_HEADER_LIST_SIZE, header bytes decodable in the peer header_encoding)',
                      'windows and increments <= 2^20 in these profiles']))

reg(Spec('C13', ['c13:C13'],
         quick=[('HDR', 2500), ('DUPLEX', 1000)],
         thorough=[('HDR', 60000), ('DUPLEX', 20000), ('RACE', 10000)],
         overrides={'*': {'matrix_outbound': True, 'small_closed': 0.0, 'small_backlog': False, 'misuse': 0.3,
                          'misuse_focus': [0, 4, 4, 14], 'push': 0.2, 'ops_boost': {'push': 3}, 'at_limit_attempts': 0.4,
                          'settings_bias': {3: [1, 2, 100]}, 'aftermath': 0.3, 'boundary': 0.25}},
         rule=R_RUN + 'non-trivial = a header-carrying call raised and a later one on the same endpoint succeeded' + R_DISTINCT))
reg(Spec('C14', ['c14:C14'],
         quick=[('HDR', 6000), ('DUPLEX', 1000)],
         thorough=[('HDR', 80000), ('DUPLEX', 10000)],
         overrides={'*': {'misuse': 0.3, 'aftermath': 0.4, 'push': 0.15, 'ops_boost': {'push': 2}, 'at_limit_attempts': 0.4,
                          'settings_bias': {3: [1, 2, 100]}}},
         rule=R_RUN + 'non-trivial = a header list that needed repair, or a sensitive field, was emitted' + R_DISTINCT))

reg(Spec('C06', ['c06:C06'],
         quick=[('ADV', 3000), ('DUPLEX', 1000), ('RACE', 1000), ('MISUSE', 800)],
         thorough=[('ADV', 80000), ('DUPLEX', 20000), ('RACE', 20000), ('MISUSE', 20000), ('UPGRADE', 5000)],
         overrides={'ADV': {'adv_repromise': 0.1, 'push': 0.12}},
         rule=R_RUN + 'non-trivial = at least one (role x stream-state x frame-or-call) cell of the RFC reference table was judged; '
              'the probes list every distinct cell reached' + R_DISTINCT,
         assumptions=['sampled histories with measured coverage of the reference table, not exhaustive enumeration to a depth bound',
                      'only single-frame receive steps are judged (attribution is exact there); bursts are covered by C21 equivalence']))

reg(Spec('C08', ['c08:C08'],
         quick=[('MISUSE', 2500), ('DUPLEX', 800), ('UPGRADE', 500)],
         thorough=[('MISUSE', 60000), ('DUPLEX', 20000), ('UPGRADE', 10000)],
         overrides={'MISUSE': {'misuse_focus': [0, 0, 4, 4, 14, 1, 2], 'push': 0.2, 'ops_boost': {'push': 3}, 'aftermath': 0.4,
                               'hdr_variety': 1.0, 'config_matrix': 0.6, 'misuse_focus': [0, 0, 4, 4, 14, 1, 2, 12, 12, 12, 12], 'poison_ok': True}},
         rule=R_RUN + 'non-trivial = at least one ordering call (headers/data/end/push/prioritize/alt-svc) was refused' + R_DISTINCT))
reg(Spec('C09', ['c09:C09'],
         quick=[('DUPLEX', 2400), ('RACE', 1600), ('ADV', 4000), ('MISUSE', 1200)],
         thorough=[('DUPLEX', 30000), ('RACE', 20000), ('ADV', 50000), ('MISUSE', 15000)],
         overrides={'*': {'top_ids': 0.08, 'adv_repromise': 0.12, 'push': 0.15}},
         rule=R_RUN + 'non-trivial = an id at a boundary / a skipped id was used, a header call failed, or a peer frame addressed an idle, skipped or closed id' + R_DISTINCT))
reg(Spec('C10', ['c10:C10'],
         quick=[('RACE', 5000), ('DUPLEX', 2000), ('ADV', 5000)],
         thorough=[('RACE', 60000), ('DUPLEX', 20000), ('ADV', 60000)],
         overrides={'*': {'settings_bias': {3: [0, 1, 1, 2, 3]}, 'at_limit_attempts': 0.4, 'ops_boost': {'open': 3, 'push': 3, 'settings': 2},
                          'settings_churn': 0.1, 'adv_new_streams': 0.35, 'misuse': 0.15, 'misuse_focus': [1, 1, 2, 0], 'aftermath': 0.4,
                          'adv_push_response': 0.5, 'empty_settings': 0.15}},
         rule=R_RUN + 'non-trivial = a run that reached a concurrency limit (either direction)' + R_DISTINCT))

reg(Spec('C22', ['c22:C22'],
         quick=[('RACE', 4000), ('DUPLEX', 1600), ('ADV', 3000), ('MISUSE', 1000)],
         thorough=[('RACE', 50000), ('DUPLEX', 20000), ('ADV', 40000), ('MISUSE', 10000)],
         overrides={'*': {'push': 0.2, 'settings_bias': {2: [0, 0, 1]}, 'at_limit_attempts': 0.4, 'ops_boost': {'push': 6, 'settings': 2},
                          'misuse': 0.15, 'misuse_focus': [4, 4, 4, 0], 'aftermath': 0.4, 'adv_repromise': 0.1, 'empty_settings': 0.2}},
         rule=R_RUN + 'non-trivial = a push met a disabled ENABLE_PUSH (either side) or a closed parent' + R_DISTINCT))
reg(Spec('C23', ['c23:C23'],
         quick=[('DUPLEX', 1500), ('ADV', 2000), ('MISUSE', 500), ('HDR', 800)],
         thorough=[('DUPLEX', 30000), ('ADV', 50000), ('MISUSE', 10000), ('HDR', 20000)],
         overrides={'*': {'prio_open': 0.5, 'ops_boost': {'prio': 3}, 'boundary': 0.2},
                    'HDR': {'prio_open': 0.6, 'big_headers': 0.4, 'config_matrix': 0.0, 'boundary': 0.3},
                    'ADV': {'prio_open': 0.5, 'big_headers': 0.2}},
         rule=R_RUN + 'non-trivial = invalid priority arguments, a self-dependency, or PRIORITY on an idle/closed stream' + R_DISTINCT))
reg(Spec('C24', ['c24:C24'],
         quick=[('DUPLEX', 3000), ('RACE', 1600), ('ADV', 4000), ('MISUSE', 1000)],
         thorough=[('DUPLEX', 30000), ('RACE', 20000), ('ADV', 50000), ('MISUSE', 10000)],
         overrides={'*': {'ops_boost': {'altsvc': 6, 'trailers': 2, 'push': 3}, 'push': 0.15, 'misuse': 0.2, 'misuse_focus': [0, 12, 12, 13, 10, 10], 'aftermath': 0.4,
                          'aftermath_fsm': True}},
         rule=R_RUN + 'non-trivial = an advertisement attempted by a client or on a half-closed/closed stream, or an ALTSVC frame delivered on a faulted direction' + R_DISTINCT))

reg(Spec('C11', ['c11:C11'],
         quick=[('RACE', 2500), ('DUPLEX', 1000), ('ADV', 1000), ('CORRUPT', 600), ('UPGRADE', 600)],
         thorough=[('RACE', 60000), ('DUPLEX', 20000), ('ADV', 20000), ('CORRUPT', 20000), ('UPGRADE', 10000)],
         overrides={'*': {'ops_boost': {'settings': 5}, 'settings_churn': 0.15, 'empty_settings': 0.15}},
         rule=R_RUN + 'non-trivial = at least two SETTINGS frames of one endpoint were outstanding at once' + R_DISTINCT))
reg(Spec('C12', ['c12:C12'],
         quick=[('ADV', 2500), ('CORRUPT', 1500), ('MISUSE', 800), ('FLOW', 600), ('UPGRADE', 400)],
         thorough=[('ADV', 60000), ('CORRUPT', 40000), ('MISUSE', 20000), ('FLOW', 20000), ('UPGRADE', 5000)],
         overrides={'*': {'ops_boost': {'settings': 3, 'push': 2}, 'adv_overflow': 0.15, 'push': 0.15},
                    'UPGRADE': {'upgrade_bad_header': 0.6, 'ops_boost': {'settings': 3}}},
         rule=R_RUN + 'non-trivial = a boundary value (0, 1, 2, 2^14-1, 2^14, 2^24-1, 2^24, 2^31-1, 2^31, 2^32-1), an out-of-range value or an unknown identifier was used, locally or on the wire' + R_DISTINCT,
         assumptions=['setting identifiers sent through update_settings stay below 256 (hyperframe 6.1 serialises id & 0xFF); received identifiers cover 0..65535']))

reg(Spec('C15', ['c15:C15'],
         quick=[('HDR', 2500), ('ADV', 2500)],
         thorough=[('HDR', 60000), ('ADV', 60000), ('CORRUPT', 10000)],
         overrides={'HDR': {'config_matrix': 0.8, 'sloppy_sender': 0.6, 'misuse': 0.25},
                    'ADV': {'config_matrix': 0.5, 'adv_hostauth': 0.2}},
         rule=R_RUN + 'non-trivial = a header block violating at least one section 8.1.2 rule was delivered to an endpoint in a position where the stream state permits a block' + R_DISTINCT))

reg(Spec('C16', ['c16:C16'],
         quick=[('HDR', 2500), ('DUPLEX', 1500), ('ADV', 1500)],
         thorough=[('HDR', 60000), ('DUPLEX', 40000), ('ADV', 40000)],
         overrides={'*': {'cl': 0.5, 'cl_lie': 0.3, 'matrix_outbound': False, 'small_backlog': False, 'head_bias': 0.3,
                          'ops_boost': {'trailers': 4, 'respond': 2, 'info': 3}}},
         rule=R_RUN + 'non-trivial = a message with END_STREAM on HEADERS or on trailers was delivered (placements other than the last DATA)' + R_DISTINCT))

reg(Spec('C20', ['c20:C20', 'c20:C20Credit'],
         quick=[('RACE', 8000), ('DUPLEX', 2000)],
         thorough=[('RACE', 100000), ('DUPLEX', 20000), ('FLOW', 10000)],
         overrides={'*': {'ops_boost': {'race': 6, 'push': 3, 'gc': 2}, 'stall': 0.1, 'misuse': 0.03, 'no_manual_winc': True,
                          'small_closed': 0.5}},
         rule=R_RUN + 'non-trivial = frames of at least two kinds were delivered on streams after the local reset / push refusal' + R_DISTINCT))

reg(Spec('C21', ['c21:C21'],
         quick=[('DUPLEX', 800), ('FLOW', 500), ('CORRUPT', 800), ('ADV', 800), ('HDR', 400)],
         thorough=[('DUPLEX', 20000), ('FLOW', 10000), ('CORRUPT', 20000), ('ADV', 20000), ('HDR', 10000), ('RACE', 10000)],
         overrides={'*': {'ops_boost': {'settings': 2}, 'adv_ack_big': 0.12, 'settings_bias': {5: [16384, 32768, 65536, 16385]},
                          'settings_churn': 0.1}},
         rule=R_RUN + 'each endpoint log is re-executed three times on fresh connections (all bytes between two calls at once; byte-at-a-time for inputs <= 4 KiB, a seeded random partition above; at-once with random data_to_send(amount) reads); '
              'non-trivial = an endpoint received at least one byte (byte-at-a-time splits every frame header and the preface)' + R_DISTINCT,
         assumptions=['output is compared at the points where the application made a call (no draining between chunks of one segment: '
                      'a received GOAWAY discards pending output by design, C19)']))

reg(Spec('C28', [],
         overrides={'*': {'hdr_variety': 1.0, 'ops_boost': {'altsvc': 10, 'settings': 2, 'push': 2}, 'misuse': 0.15, 'mixed_host': 0.9,
                          'mixed_both': True}},
         quick=[('DUPLEX', 500), ('RACE', 300), ('HDR', 300), ('CORRUPT', 300), ('ADV', 300), ('MISUSE', 300)],
         thorough=[('DUPLEX', 6000), ('RACE', 4000), ('HDR', 4000), ('CORRUPT', 4000), ('ADV', 4000), ('MISUSE', 4000), ('FLOW', 2000), ('UPGRADE', 2000)],
         rule='one evaluation = one simulated run whose recorded trace is re-executed in fresh interpreter processes under other PYTHONHASHSEED values; '
              'digests of every output byte, event (type + public fields) and exception (type, code) of both endpoints must be identical; '
              'non-trivial = more than 10 steps; distinct = distinct abstract traces',
         budget=(600, 3000)))

reg(Spec('C25', ['c25:C25', 'c25:C25E2E', 'c25:C25Flow'],
         quick=[('UPGRADE', 4000)],
         thorough=[('UPGRADE', 100000)],
         overrides={'*': {'matrix_outbound': False, 'small_closed': 0.0, 'small_backlog': False, 'big_windows': False, 'upgrade_full_space': 0.4,
                          'upgrade_misuse_stream1': 0.3, 'upgrade_all_keys': 0.5, 'big_headers': 0.2}},
         rule=R_RUN + 'started through initiate_upgrade_connection on both sides; non-trivial = non-default client settings were handed over, or the client tried to send on stream 1' + R_DISTINCT,
         assumptions=['client settings are installed before the upgrade the only way the API offers (conn.local_settings = Settings(...)); runs that continue with '
                      'traffic vary all settings except HEADER_TABLE_SIZE (INITIAL_WINDOW_SIZE, MAX_FRAME_SIZE and MAX_HEADER_LIST_SIZE included: since the fix of the upgrade path the client puts its decoder and frame-buffer limits in place when it writes the header; a non-default HEADER_TABLE_SIZE runs into the hpack 4.2 defect of DESIGN section 8, because the upgrade sets it twice), '
                      'runs over the whole settings space judge the settings view only']))

reg(Spec('C27', ['c27:C27'],
         quick=[('LONG', 96), ('ADV', 1500), ('HDR', 500)],
         thorough=[('LONG', 1600), ('ADV', 40000), ('HDR', 10000)],
         overrides={'LONG': {}, 'ADV': {'big_headers': 0.3, 'adv_flood': 0.1}, 'HDR': {'big_headers': 0.4}},
         budget=(600, 5400),
         rule=R_RUN + 'LONG runs feed 4k-20k (quick) adversary frames that open, close, reset and reference streams to one real endpoint; '
              'non-trivial = an endpoint received at least 2000 frames; retained-table sizes are read after every step' + R_DISTINCT,
         assumptions=['table sizes are read from the attributes the property names (streams, _closed_streams, incoming_buffer); a missing attribute disables that measurement instead of alarming']))

# Oracles that judge something the open findings cannot disturb (exception
# classes, emitted wire format, twins, memory bounds ...): half of their runs
# steer around nothing, so the findings' own trigger schedules are explored too.
for _p in ('C17', 'C21', 'C19', 'C07', 'C02', 'C14'):
    SPECS[_p].no_avoid = True
# (a connection poisoned by a refused call - F-POISON - refuses valid frames too: oracles that demand acceptance keep
# steering around that one)
SPECS['C26'].no_avoid = ('F-ACK-INITIAL', 'F-DATA-BEFORE-HEADERS', 'F-COMMIT-BEFORE-VALIDATE')
