"""Developer tool: histogram of violation signatures for a property."""
import collections
import json
import multiprocessing
from concurrent.futures import ProcessPoolExecutor

from . import runner


def _w(args):
    prop, profile, seed, idxs, opts = args
    out = []
    for i in idxs:
        try:
            r = runner.one_run(prop, profile, seed, i, opts)
        except Exception:
            import traceback
            out.append(('HARNESS', profile, i, traceback.format_exc()[-1500:]))
            continue
        for v in r['violations'][:1]:
            out.append((runner.sig_of(v), profile, i, v))
    return out


def main(prop, n, seed, plan_tier=None):
    from . import props
    spec = props.SPECS[prop]
    opts = runner.base_opts(prop)
    tasks = []
    total = 0
    for profile, k in spec.plan(plan_tier or 'quick'):
        if plan_tier:
            n = k
        total += n
        for a in range(0, n, 20):
            tasks.append((prop, profile, seed, list(range(a, min(n, a + 20))), opts))
    hist = collections.Counter()
    sample = {}
    with ProcessPoolExecutor(16, mp_context=multiprocessing.get_context('fork')) as ex:
        for res in ex.map(_w, tasks):
            for sig, profile, i, v in res:
                hist[sig] += 1
                sample.setdefault(sig, (profile, i, v))
    for sig, c in hist.most_common():
        p, i, v = sample[sig]
        print(c, sig, '| first:', p, i)
        print('     ', json.dumps(v if isinstance(v, str) else v.get('facts'), default=repr)[:1500])
    print('total signatures', len(hist))
    if plan_tier:
        opens = [f for f in runner.load_findings(prop) if f.status == 'open']
        unknown = sum(c for sig, c in hist.items() if sig == 'HARNESS' or sig[0] == 'HARNESS' or not any(f.matches(sample[sig][2]) for f in opens))
        print('MARGIN property=%s tier=%s violating_runs=%d unlisted=%d of %d' % (prop, plan_tier, sum(hist.values()), unknown, total))
    return 0
