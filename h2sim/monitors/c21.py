"""C21 - results do not depend on how bytes are split."""
from .base import Monitor
from .. import twins
from .. import codec as C


class C21(Monitor):
    prop = 'C21'
    name = 'rechunk'

    def finish(self, w):
        if self.violations:
            return
        for ep in ('c', 's'):
            e = w.eps[ep]
            total = sum(len(s.chunk) for s in e.log if s.kind == 'recv')
            if not total:
                continue
            a = twins.run_variant(w, ep, lambda data, i: [data])
            rng = twins.twin_rng(w, ep, 'rechunk')
            if total <= 4096:
                self.probe('byte_at_a_time')
                part = lambda data, i: [data[j:j + 1] for j in range(len(data))]    # noqa: E731
            else:
                self.probe('random_partition')

                def part(data, i, rng=rng):
                    out = []
                    pos = 0
                    while pos < len(data):
                        n = rng.choice([1, 2, 3, 7, 8, 9, 10, 16, 23, 24, 25, 100, 1000, 16384, 16393, 70000])
                        out.append(data[pos:pos + n])
                        pos += n
                    return out
            self.nontrivial = True
            b = twins.run_variant(w, ep, part)
            d = twins.compare(a, b)
            if d is not None:
                self.fail('chunking-dependence', 'feeding the same bytes in other chunks changed %s' % d['what'], None,
                          endpoint=ep, **{k: v for k, v in d.items() if k != 'what'})
                return
            # read-amount twin: same chunking as A, output taken with random data_to_send(amount) sequences
            c = twins.run_variant(w, ep, lambda data, i: [data], drain_rng=twins.twin_rng(w, ep, 'amounts'))
            d = twins.compare(a, c)
            if d is not None:
                self.fail('read-amount-dependence', 'data_to_send(amount) sequences are not a partition of data_to_send(): %s' % d['what'],
                          None, endpoint=ep, **{k: v for k, v in d.items() if k != 'what'})
                return
            self.probe('limit_change_then_large_frame', self._limit_probe(e))
            # lazy-read twin: output taken in arbitrary partial reads *between* calls and received chunks
            # (a received GOAWAY discards what was not taken yet, so only logs without one are compared)
            if not any(f.type == C.GOAWAY for s in e.log if s.kind == 'recv' for f in s.in_frames) and not any(s.kind == 'call' and s.op == 'clear_outbound_data_buffer' for s in e.log):
                lazy, bad = twins.run_lazy(w, ep, twins.twin_rng(w, ep, 'lazy'))
                whole = b''.join(s.out for s in e.log)
                self.probe('lazy_read_twin')
                if bad or lazy != whole:
                    self.fail('read-amount-dependence', 'partial data_to_send(amount) reads interleaved with calls changed the byte stream', None,
                              endpoint=ep, same_length=len(lazy) == len(whole),
                              first_difference=next((i for i, (x, y) in enumerate(zip(lazy, whole)) if x != y), min(len(lazy), len(whole))))
                    return

    @staticmethod
    def _limit_probe(e):
        n = 0
        raised = False
        for s in e.log:
            if s.kind == 'recv':
                for f in s.units:
                    if f.type == C.SETTINGS and f.ack:
                        raised = True
                    elif raised and f.length > 16384:
                        n += 1
        return n
