"""C15 - inbound header validation accepts exactly the conformant header blocks."""
from .base import Monitor
from .. import codec as C
from ..hdrnorm import conformant, event_expected
from ..model import NONE, INFO, FINAL, TRAILERS, is_info

HEADER_EVENTS = {'request': 'RequestReceived', 'response': 'ResponseReceived', 'info': 'InformationalResponseReceived',
                 'trailers': 'TrailersReceived', 'push': 'PushedStreamReceived'}


class C15(Monitor):
    prop = 'C15'
    name = 'inbound-headers'

    def on_step(self, w, s):
        if s.kind != 'recv' or s.snap['closed'] or not s.exact or s.quirk:
            return
        e = w.eps[s.ep]
        trk = e.trk
        client = e.client
        cfg = w.cfg[s.ep]
        f = s.units[0]
        if f.type not in (C.HEADERS, C.PUSH_PROMISE) or f.block_frames is None or f.bad or f.hpack_error or f.headers is None:
            return
        mine = s.snap['mine']
        if any(x.length > mine[C.S_MAX_FRAME_SIZE] or x.bad for x in f.block_frames):
            return
        if len(f.block_frames) > w.cfg['knobs'].get('CONTINUATION_BACKLOG', 64):
            return
        lim = mine.get(C.S_MAX_HEADER_LIST_SIZE)
        if lim is not None and f.header_list_size > lim:
            return
        if s.tainted and trk.table_size_changed:
            return
        wire = [(n, v) for n, v, _ in f.headers]
        pre = s.pre[0]
        # position (block type) from the receiver's own stream state; only positions where the
        # stream state itself permits the block are judged
        kind = None
        if f.type == C.PUSH_PROMISE:
            if not client or not mine.get(C.S_ENABLE_PUSH, 1) or pre is None or pre.state not in ('open', 'hcL') \
                    or not pre.mine or pre.pushed:
                return
            p = f.promised
            if not p or p % 2 or p <= s.snap['hi_peer']:
                return
            kind = 'push'
        elif pre is None:
            if client or trk.is_mine(f.sid) or f.sid <= s.snap['hi_peer']:
                return
            lim_c = mine.get(C.S_MAX_CONCURRENT_STREAMS)
            if lim_c is not None and s.snap['open_peer'] + 1 > lim_c:
                return
            kind = 'request'
        elif pre.state == 'rsvR':
            lim_c = mine.get(C.S_MAX_CONCURRENT_STREAMS)
            if lim_c is not None and s.snap['open_peer'] + 1 > lim_c:
                return
            if is_info(wire):
                return
            kind = 'response'
        elif pre.state in ('open', 'hcL'):
            if pre.recv_cl is not None:
                return      # a declared content-length decides at the end of the message: C16
            cs = (pre.mine and not pre.pushed) or (pre.pushed and not pre.mine)
            if cs and pre.recv in (NONE, INFO):
                kind = 'info' if is_info(wire) else 'response'
                if kind == 'info' and f.end_stream:
                    return
            elif pre.recv == FINAL:
                if not f.end_stream:
                    return
                kind = 'trailers'
            else:
                return
        else:
            return
        if f.prio is not None and f.prio[0] == f.sid:
            return
        # content-length is C16's business
        cl = [v for n, v in wire if n == b'content-length']
        if cl:
            return
        enc = cfg.get('header_encoding')
        decodable = True
        if enc:
            try:
                for n, v in wire:
                    n.decode(enc), v.decode(enc)
            except UnicodeDecodeError:
                decodable = False
        why = conformant(wire, {'info': 'response', 'push': 'request'}.get(kind, kind))
        validate = cfg.get('validate_inbound', True)
        self.probe('judged_block')
        self.probe('kind_' + kind)
        if why is not None:
            self.probe('nonconformant')
            self.nontrivial = True
        if validate and why is not None:
            if s.ok:
                self.fail('nonconformant-delivered', '%s block delivered although: %s' % (kind, why), s, why=why, block=kind)
            elif s.exc['code'] != C.PROTOCOL_ERROR:
                self.fail('nonconformant-code', 'non-conformant block refused with code %s' % s.exc['code'], s, why=why)
            return
        if not decodable:
            if s.ok:
                self.fail('undecodable-delivered', 'header bytes not valid in header_encoding were delivered', s)
            return
        if why is None or not validate:
            if not validate and why is not None:
                # without validation anything decodable is delivered, but an empty name etc. must still not crash
                if not s.ok and not s.exc['proto']:
                    self.fail('unvalidated-crash', 'unvalidated block raised %s' % s.exc['type'], s)
                if not s.ok:
                    return
            if not s.ok:
                self.fail('conformant-refused', 'a conformant %s block was refused: %s@%s' % (kind, s.exc['type'], s.exc['where']), s,
                          block=kind, headers=wire[:8])
                return
            evs = [ev for ev in s.events if ev['t'] == HEADER_EVENTS[kind]]
            if len(evs) != 1:
                if any(x.type == C.RST_STREAM for x in s.out_frames):
                    return
                self.fail('conformant-no-event', 'a conformant %s block produced no %s' % (kind, HEADER_EVENTS[kind]), s,
                          events=[ev['t'] for ev in s.events])
                return
            want = event_expected(wire, cfg)
            got = [(h[0], h[1]) for h in evs[0]['headers']]
            if got != want:
                self.fail('delivered-headers-differ', 'delivered headers differ from the decoded block', s,
                          got=got[:8], want=want[:8])
                return
            if cfg.get('normalize_inbound', True) and any(n == b'cookie' for n, _ in wire):
                last = evs[0]['headers'][-1]
                if not last[2]:
                    self.fail('cookie-not-never-indexed', 'joined cookie field is not a never-indexed tuple', s)
