"""C01 - two h2 endpoints exchange every successful send faithfully."""
from .base import Monitor
from .. import codec as C
from ..expect import expect_unit, match_events, SKIP


class C01(Monitor):
    prop = 'C01'
    name = 'e2e'
    check_epilogue = True

    def start(self, w):
        self.view = {'c': {}, 's': {}}            # receiver's view of the peer's settings as received in frames
        self.fsm_refused = {'c': set(), 's': set()}   # streams (or 'conn') on which a call was refused by a state machine
        self.early_settings = {'c': False, 's': False}
        self.acks_seen = {'c': 0, 's': 0}
        self.failed_calls = 0
        self.midframe = 0
        self.max_conc = 0
        self.epilogue = None
        self.epilogue_done = False
        self.ep_events = {'c': [], 's': []}
        self.ep_call_failed = None

    # ------------------------------------------------------------------
    def on_step(self, w, s):
        if s.kind == 'call':
            if not s.ok:
                self.failed_calls += 1
                x = s.exc
                if x['proto'] and x['where'] and (x['where'].endswith('process_input') or x['where'].startswith('stream.')):
                    sid = (s.args or {}).get('sid')
                    self.fsm_refused[s.ep].add(sid if (x['where'].startswith('stream') and sid is not None) else 'conn')
                if self.epilogue is not None and not self.epilogue_done and self.ep_call_failed is None:
                    self.ep_call_failed = (s.op, x['type'], x['where'])
            elif s.op == 'update_settings' and self.acks_seen[s.ep] == 0:
                self.early_settings[s.ep] = True
            return
        y = s.ep
        e = w.eps[y]
        if s.chunk and e.in_tap.buf:
            self.midframe += 1
        self.max_conc = max(self.max_conc, e.trk.count_open(True) + e.trk.count_open(False))
        if self.failed_calls and self.midframe and self.max_conc >= 2:
            self.nontrivial = True
        if s.tainted:
            return
        if s.snap['closed']:
            return          # an endpoint that has itself closed the connection is exempt
        for ev in s.events or ():
            if ev['t'] == 'SettingsAcknowledged':
                self.acks_seen[y] += 1
        if not s.ok:
            kind = self._known_cause(w, s, 'receiver-raised')
            self.fail(kind, '%s@%s' % (s.exc['type'], s.exc['where']), s, units=[u.brief() for u in s.units][:4])
            return
        if len(s.units) > 1 and any(u.type == C.GOAWAY for u in s.units) and \
                any(u.type == C.PUSH_PROMISE and s.pre[i] is not None and s.pre[i].state == 'closed'
                    for i, u in enumerate(s.units)):
            # A push refused in this very call (parent reset by the receiver): the RST_STREAM that says so is discarded
            # with all other pending output by the GOAWAY behind it, so what became of the promised stream cannot be
            # read off the wire.  The connection is over anyway.
            self.probe('unjudged_step')
            return
        expected = []
        judged = True
        view = self.view[y]
        spans = []
        for i, u in enumerate(s.units):
            ex = expect_unit(w, s, i, u, view)
            if ex is SKIP:
                judged = False
                break
            spans.append((len(expected), ex))
            expected.append(ex)
        if self.epilogue is not None:
            self.ep_events[y].extend(s.events)
        if not judged:
            self.probe('unjudged_step')
            return
        # compare unit by unit, in order
        pos = 0
        evs = s.events
        for base, ex in spans:
            got = evs[pos:pos + len(ex)]
            why = match_events(ex, got, base=pos)
            if why is not None:
                kind = self._known_cause(w, s, 'event-mismatch')
                self.fail(kind, why, s, expected=[e_['t'] for e_ in ex], got=[g['t'] for g in evs[pos:pos + len(ex) + 2]],
                          unit=s.units[spans.index((base, ex))].brief())
                return
            pos += len(ex)
        if pos != len(evs):
            self.fail('invented-event', 'events without a corresponding successful send', s,
                      extra=[g['t'] for g in evs[pos:]])
        self.probe('judged_steps')

    def _known_cause(self, w, s, default):
        """Attribute a failure to an open finding only if its trigger was seen
        on this very stream (or on the connection) of either endpoint."""
        y = s.ep
        x = w.peer(y)
        if s.exc and not s.exc.get('proto'):
            return default          # no open finding makes receive_data raise anything but a ProtocolError
        ref = self.fsm_refused[y] | self.fsm_refused[x]
        sids = set(u.sid for u in s.units)
        if 'conn' in ref or (ref & sids):
            return 'poisoned-by-refused-call'
        if self.early_settings[y] or self.early_settings[x]:
            return 'early-settings-after-initial-ack'
        return default

    # ------------------------------------------------------------------
    def note(self, w, ev):
        if ev.get('what') == 'epilogue':
            self.epilogue = ev['sid']
        elif ev.get('what') == 'epilogue-end':
            self.epilogue_done = True

    def finish(self, w):
        if not self.check_epilogue or self.epilogue is None or not self.epilogue_done or self.violations:
            return
        c, sv = w.eps['c'].trk, w.eps['s'].trk
        if c.closed or sv.closed:
            self.fail('epilogue-connection-closed', 'connection closed during the fault-free epilogue', None)
            return
        kind = 'epilogue'
        if 'conn' in self.fsm_refused['c'] or 'conn' in self.fsm_refused['s']:
            kind = 'poisoned-by-refused-call'
        elif self.early_settings['c'] or self.early_settings['s']:
            kind = 'early-settings-after-initial-ack'
        if self.ep_call_failed is not None:
            self.fail(kind if kind != 'epilogue' else 'epilogue-call-failed',
                      'a valid call of the fault-free epilogue raised: %s %s@%s' % self.ep_call_failed, None)
            return
        sid = self.epilogue
        srv = [e['t'] for e in self.ep_events['s'] if e.get('stream_id') == sid]
        cli = [e['t'] for e in self.ep_events['c'] if e.get('stream_id') == sid]
        want_s = ['RequestReceived', 'DataReceived', 'StreamEnded']
        want_c = ['ResponseReceived', 'DataReceived', 'TrailersReceived', 'StreamEnded']
        srv = [t for t in srv if t in want_s]
        cli = [t for t in cli if t in want_c]
        if srv != want_s or cli != want_c:
            self.fail(kind if kind != 'epilogue' else 'epilogue-incomplete',
                      'the fault-free epilogue exchange did not complete', None, server=srv, client=cli)
        else:
            self.probe('epilogue_completed')
