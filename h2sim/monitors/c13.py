"""C13 - header compression state stays synchronised across all calls."""
from .base import Monitor
from .. import codec as C
from ..hdrnorm import wire_expected
from ..expect import expect_unit, match_events, SKIP

HEADER_EVENTS = ('RequestReceived', 'ResponseReceived', 'InformationalResponseReceived', 'TrailersReceived',
                 'PushedStreamReceived')


class C13(Monitor):
    prop = 'C13'
    name = 'hpack-sync'

    def start(self, w):
        self.failed_hdr_call = {'c': False, 's': False}
        self.view = {'c': {}, 's': {}}

    def on_step(self, w, s):
        e = w.eps[s.ep]
        if s.kind == 'call':
            if s.op in ('send_headers', 'push_stream'):
                if not s.ok:
                    self.failed_hdr_call[s.ep] = True
                    self.probe('failed_header_call')
                    if s.out:
                        self.fail('failed-call-emitted', '%s raised but emitted bytes' % s.op, s)
                    return
                blocks = [f for f in s.out_frames if f.type in (C.HEADERS, C.PUSH_PROMISE) and f.block_frames is not None]
                if len(blocks) != 1:
                    self.fail('block-count', '%s emitted %d header blocks' % (s.op, len(blocks)), s)
                    return
                f = blocks[0]
                after_failed = self.failed_hdr_call[s.ep]
                if after_failed:
                    self.probe('block_after_failed_call')
                    self.nontrivial = True
                kind = 'undecodable-after-failed-call' if after_failed else 'undecodable-block'
                if f.hpack_error:
                    self.fail(kind, 'reference decoder: %s' % f.hpack_error, s)
                    return
                want = wire_expected(s.args['headers'], w.cfg[s.ep])
                got = [(n, v) for n, v, _ in f.headers]
                if got != want:
                    self.fail('wrong-block-after-failed-call' if after_failed else 'wrong-block',
                              'emitted block does not decode to the normalised header list of the call', s,
                              got=got[:8], want=want[:8])
                    return
                # the dynamic table never exceeds what the peer allowed (as received so far)
                lim = e.trk.peer[C.S_HEADER_TABLE_SIZE]
                if e.out_tap.dec.max_size > max(lim, s.snap['peer'][C.S_HEADER_TABLE_SIZE]):
                    self.fail('table-above-limit', 'encoder table size above the peer HEADER_TABLE_SIZE', s,
                              size=e.out_tap.dec.max_size, limit=lim)
            return
        # receiving side (reliable directions only): the real peer decodes the same list
        if s.tainted or s.snap['closed']:
            return
        hdr_units = [(i, u) for i, u in enumerate(s.units) if u.type in (C.HEADERS, C.PUSH_PROMISE)]
        if not hdr_units:
            for i, u in enumerate(s.units):
                if u.type == C.SETTINGS and not u.ack:
                    expect_unit(w, s, i, u, self.view[s.ep])
            return
        if not s.ok:
            if s.exc['code'] in (C.COMPRESSION_ERROR,) or (s.exc['where'] or '').endswith('_decode_headers'):
                x = w.peer(s.ep)
                self.fail('peer-decode-failed-after-failed-call' if self.failed_hdr_call[x] else 'peer-decode-failed',
                          '%s@%s' % (s.exc['type'], s.exc['where']), s)
            return
        evs = [ev for ev in s.events if ev['t'] in HEADER_EVENTS]
        want = []
        for i, u in enumerate(s.units):
            ex = expect_unit(w, s, i, u, self.view[s.ep])
            if u.type not in (C.HEADERS, C.PUSH_PROMISE):
                continue
            if ex is SKIP:
                return
            want.extend(x_ for x_ in ex if x_['t'] in HEADER_EVENTS)
        if len(want) != len(evs):
            return      # event grammar / lifecycle is judged elsewhere (C01, C06, C20)
        for a, b in zip(want, evs):
            got = [(h[0], h[1]) for h in b.get('headers') or []]
            exp = [(h[0], h[1]) for h in a['headers']]
            if got != exp:
                x = w.peer(s.ep)
                self.fail('peer-headers-differ-after-failed-call' if self.failed_hdr_call[x] else 'peer-headers-differ',
                          '%s headers differ from the normalised list of the call' % b['t'], s, got=got[:8], want=exp[:8])
                return
