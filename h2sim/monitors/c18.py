"""C18 - every connection error emits exactly one GOAWAY with the RFC-mandated code."""
from .base import Monitor
from .. import codec as C
from ..rules import maybe_forgotten
from ..model import is_info

MAXW = 2 ** 31 - 1


class C18(Monitor):
    prop = 'C18'
    name = 'goaway'

    def start(self, w):
        self.knob = w.cfg['knobs'].get('MAX_CLOSED_STREAMS', 65536)
        self.backlog = w.cfg['knobs'].get('CONTINUATION_BACKLOG', 64)

    def on_step(self, w, s):
        if s.kind != 'recv' or s.ok or not s.exc['proto']:
            return
        e = w.eps[s.ep]
        trk = e.trk
        self.probe('connection_error')
        self.nontrivial = True
        goaways = [f for f in s.out_frames if f.type == C.GOAWAY]
        preface_bad = e.in_tap.preface_bad
        if len(goaways) != 1:
            if not goaways and preface_bad:
                return
            if not goaways and s.snap['closed']:
                # already closed before this step: one GOAWAY per *connection error*;
                # a closed connection answering further frames is judged by C19
                return
            self.fail('goaway-count', '%d GOAWAY frames for one connection error' % len(goaways), s,
                      exc=s.exc['type'])
            return
        g = goaways[0]
        if g.error_code != s.exc['code']:
            self.fail('code-mismatch', 'GOAWAY code differs from the exception code', s,
                      goaway=g.error_code, exc=s.exc['code'])
        if s.snap['closed']:
            return
        cands = {s.snap['hi_peer'], trk.hi_peer}
        if s.units:
            # streams opened by frames of this very chunk count, including the
            # offending frame itself (the peer did open that stream)
            for u in s.units:
                if u.type == C.HEADERS and not trk.is_mine(u.sid) and u.sid > s.snap['hi_peer']:
                    cands.add(u.sid)
                if u.type == C.PUSH_PROMISE and u.promised and u.promised > s.snap['hi_peer']:
                    cands.add(u.promised)
        if g.last_sid not in cands:
            self.fail('last-stream-id', 'GOAWAY last-stream-id is not the highest peer-opened stream', s,
                      got=g.last_sid, want=trk.hi_peer)
        if s.snap['closed'] or preface_bad:
            return
        cands = None
        # classification of the offending frame (single-unit steps only: exact attribution)
        if not s.exact or s.quirk:
            return
        f = s.units[0]
        pre = s.pre[0]
        want, why = self.classify(f, pre, s, trk)
        if want is not None:
            self.probe('classified')
            if g.error_code != want:
                self.fail('wrong-code', '%s: expected code %d' % (why, want), s, got=g.error_code, want=want)

    def classify(self, f, pre, s, trk):
        mine = s.snap['mine']
        if f.length > mine[C.S_MAX_FRAME_SIZE]:
            if (f.bad is not None and f.bad[0] == 'proto') or 'proto' in C.all_problems(f):
                return None, None       # two violations at once: either code
            return C.FRAME_SIZE_ERROR, 'frame longer than MAX_FRAME_SIZE'
        if len(C.all_problems(f)) > 1:
            return None, None           # several violations at once: either code
        if f.bad is not None and f.bad[0] == 'size':
            return C.FRAME_SIZE_ERROR, f.bad[1]
        if f.bad is not None:
            if f.type == C.WINDOW_UPDATE:
                return None, None          # increment 0: PROTOCOL_ERROR, stream or connection error: either
            return C.PROTOCOL_ERROR, f.bad[1]
        blk = f.block_frames
        if f.type in (C.HEADERS, C.PUSH_PROMISE) and blk is not None:
            for x in blk:
                if x.length > mine[C.S_MAX_FRAME_SIZE]:
                    return C.FRAME_SIZE_ERROR, 'frame longer than MAX_FRAME_SIZE'
            if len(blk) > self.backlog:
                return None, None       # over the CONTINUATION cap: refused before the block is looked at (C27)
            if f.type == C.PUSH_PROMISE and not mine.get(C.S_ENABLE_PUSH, 1):
                return C.PROTOCOL_ERROR, 'PUSH_PROMISE with push disabled'
            if f.hpack_error and not f.hpack_error.startswith('not-decoded'):
                return C.COMPRESSION_ERROR, 'undecodable header block'
            lim = mine.get(C.S_MAX_HEADER_LIST_SIZE)
            if f.headers is not None and lim is not None and f.header_list_size > lim and f.header_list_size > 65536:
                return C.ENHANCE_YOUR_CALM, 'header list larger than MAX_HEADER_LIST_SIZE'
            if (f.type == C.HEADERS and pre is not None and pre.state == 'closed' and pre.closed_by == 'end'
                    and not f.hpack_error and f.headers is not None
                    and not (s.tainted and trk.table_size_changed)      # (the decoder may be owed a table-size update)
                    and not (f.end_stream and is_info([(n, v_) for n, v_, _ in f.headers]))   # malformed whatever the state
                    and not (s.exc.get('where') or '').endswith('_decode_headers')
                    and not maybe_forgotten(trk, pre, self.knob)):
                # RFC 7540 5.1: HEADERS on a stream both sides have finished is a connection error STREAM_CLOSED
                return C.STREAM_CLOSED, 'HEADERS on a stream closed by END_STREAM'
            return None, None
        if f.type == C.DATA:
            if f.fc_len > s.snap['conn_recv'] and f.fc_len > 0:
                return C.FLOW_CONTROL_ERROR, 'DATA beyond the connection window'
            return None, None
        if f.type == C.WINDOW_UPDATE and f.sid == 0:
            if s.snap['conn_send'] + f.increment > MAXW:
                return C.FLOW_CONTROL_ERROR, 'connection window overflow'
            return None, None
        if f.type == C.SETTINGS and not f.ack:
            found = []
            for k, v in f.settings:
                if k == C.S_INITIAL_WINDOW_SIZE and v > MAXW:
                    found.append((C.FLOW_CONTROL_ERROR, 'INITIAL_WINDOW_SIZE above 2^31-1'))
                if k == C.S_ENABLE_PUSH and v > 1:
                    found.append((C.PROTOCOL_ERROR, 'ENABLE_PUSH not 0/1'))
                if k == C.S_MAX_FRAME_SIZE and not (16384 <= v <= 2 ** 24 - 1):
                    found.append((C.PROTOCOL_ERROR, 'MAX_FRAME_SIZE out of range'))
                if k == C.S_ENABLE_CONNECT_PROTOCOL and v > 1:
                    found.append((C.PROTOCOL_ERROR, 'ENABLE_CONNECT_PROTOCOL not 0/1'))
            if found and len(set(c for c, _ in found)) == 1:
                return found[0]
            return None, None
        if f.type == C.PRIORITY:
            return C.PROTOCOL_ERROR, 'PRIORITY (self-dependency)'
        if f.type == C.CONTINUATION:
            return C.PROTOCOL_ERROR, 'naked CONTINUATION'
        return None, None
