"""C03 - outbound DATA never exceeds the peer's flow-control windows."""
from .base import Monitor
from .. import codec as C


class C03(Monitor):
    prop = 'C03'
    name = 'send-window'

    def start(self, w):
        w.observe_windows = True

    def on_step(self, w, s):
        e = w.eps[s.ep]
        trk = e.trk
        # 1. every emitted DATA frame fits both windows as they stood before the step
        conn = s.snap['conn_send']
        for f in s.out_frames:
            if f.type != C.DATA or f.fc_len == 0:
                continue
            pre = (s.pre or {}).get(f.sid) if s.kind == 'call' else None
            if pre is None:
                self.fail('data-untracked-stream', 'DATA emitted on a stream without send state', s, sid=f.sid)
                continue
            if f.fc_len > conn:
                self.fail('conn-window-overrun', 'DATA exceeds connection window', s, fc_len=f.fc_len, window=conn)
            if f.fc_len > pre.send_win:
                self.fail('stream-window-overrun', 'DATA exceeds stream window', s, fc_len=f.fc_len, window=pre.send_win)
            conn -= f.fc_len
            if f.fc_len and f.fc_len in (pre.send_win, s.snap['conn_send']):
                self.probe('send_at_window_edge')
                self.nontrivial = True
        # 2. local_flow_control_window == min(conn, stream) for every live stream, after every step
        if s.obs and not trk.dead:
            for sid, o in s.obs.items():
                st = trk.get(sid)
                if st is None or isinstance(o, str):
                    continue
                want = min(trk.conn_send, st.send_win)
                if o[0] != want:
                    self.fail('window-report', 'local_flow_control_window differs from the wire-derived window', s,
                              sid=sid, got=o[0], want=want)
                    break
        if s.kind == 'call' and s.op == 'local_flow_control_window' and s.ok and not trk.dead:
            st = trk.get(s.args['sid'])
            if st is not None and st.state != 'closed' and s.ret != min(trk.conn_send, st.send_win):
                self.fail('window-report', 'local_flow_control_window differs from the wire-derived window', s,
                          got=s.ret, want=min(trk.conn_send, st.send_win))
        # 3. send_data: size > window <=> FlowControlError, and nothing emitted
        if s.kind == 'call' and s.op == 'send_data':
            a = s.args
            pre = s.pre.get(a['sid'])
            pad = a.get('pad')
            if pre is None or pre.state == 'closed' or s.snap['closed']:
                return
            if pad is not None and (not isinstance(pad, int) or pad < 0 or pad > 255):
                return
            size = len(a['data']) + ((pad + 1) if pad is not None else 0)
            window = min(s.snap['conn_send'], pre.send_win)
            if size > window:
                self.probe('send_over_window')
                self.nontrivial = True
                if s.ok or s.exc['type'] != 'FlowControlError':
                    self.fail('overrun-not-refused', 'send_data above the window did not raise FlowControlError', s,
                              size=size, window=window, outcome=s.exc['type'] if s.exc else 'ok')
                if s.out:
                    self.fail('refused-send-emitted', 'refused send_data emitted bytes', s)
            else:
                if s.exc and s.exc['type'] == 'FlowControlError':
                    self.fail('spurious-flow-error', 'send_data within the window raised FlowControlError', s,
                              size=size, window=window)
                sendable = pre.state in ('open', 'hcR') and pre.sent == 'final'
                if sendable and size <= s.snap['peer'][C.S_MAX_FRAME_SIZE] and not s.ok and \
                        not getattr(w, 'fsm_poison_possible', False):
                    self.fail('fitting-send-refused', 'send_data within window and frame limit was refused', s,
                              size=size, window=window, exc=s.exc['type'])
                if size == window and s.ok and size:
                    self.probe('send_exactly_window')
