"""C22 - server push rules are enforced on both ends."""
from .base import Monitor
from .. import codec as C
from ..hdrnorm import conformant, wire_expected, event_expected

MAXID = 2 ** 31 - 1


class C22(Monitor):
    prop = 'C22'
    name = 'push'

    def start(self, w):
        self.poison = {'c': set(), 's': set()}
        self.push_changes = 0
        self.refused = {'c': 0, 's': 0}

    def on_step(self, w, s):
        e = w.eps[s.ep]
        trk = e.trk
        client = e.client
        if s.kind == 'call':
            try:
                if s.op == 'push_stream':
                    self._push_call(w, e, s)
                elif s.op in ('send_headers', 'reset_stream') and not s.ok and not s.snap['closed']:
                    # 'the promised stream then carries a response': a stream this endpoint has promised (PUSH_PROMISE on
                    # the wire, no RST_STREAM either way since) exists, whatever else may be wrong with the call
                    sid = (s.args or {}).get('sid')
                    pre = s.pre.get(sid) if isinstance(sid, int) else None
                    if pre is not None and pre.state == 'rsvL' and pre.mine and \
                            s.exc['type'] in ('NoSuchStreamError', 'StreamClosedError') and \
                            'conn' not in self.poison[s.ep] and sid not in self.poison[s.ep]:
                        self.probe('call_on_promised_stream_failed_lookup')
                        self.fail('promised-stream-lost', '%s on a stream this endpoint has promised raised %s' % (s.op, s.exc['type']), s,
                                  sid=sid)
            finally:
                if not s.ok and s.exc['proto'] and s.exc['where'] and \
                        (s.exc['where'].endswith('process_input') or s.exc['where'].startswith('stream.')):
                    sid = (s.args or {}).get('sid')
                    self.poison[s.ep].add(sid if (s.exc['where'].startswith('stream') and sid is not None) else 'conn')
            return
        if s.snap['closed'] or not s.exact or s.quirk:
            return
        f = s.units[0]
        if f.type != C.PUSH_PROMISE or f.block_frames is None or f.bad or f.hpack_error or f.headers is None:
            return
        mine = s.snap['mine']
        if any(x.length > mine[C.S_MAX_FRAME_SIZE] for x in f.block_frames):
            return
        self.probe('push_promise_delivered')
        pre = s.pre[0]
        wire = [(n, v) for n, v, _ in f.headers]
        if not client:
            if s.ok:
                self.fail('server-accepted-push', 'a server accepted a PUSH_PROMISE', s)
            return
        if not mine.get(C.S_ENABLE_PUSH, 1):
            self.nontrivial = True
            if s.ok:
                self.fail('push-disabled-accepted', 'PUSH_PROMISE accepted although push is disabled (acknowledged)', s)
            elif s.exc['code'] != C.PROTOCOL_ERROR:
                self.fail('push-disabled-code', 'wrong error code for PUSH_PROMISE with push disabled', s, code=s.exc['code'])
            return
        if pre is None or pre.state not in ('open', 'hcL'):
            return      # parent-state reactions: C06 / C20
        if not pre.mine or pre.pushed:
            if s.ok:
                self.fail('recursive-push-accepted', 'PUSH_PROMISE on a pushed stream accepted', s)
            return
        p = f.promised
        if not p or p % 2 or p <= s.snap['hi_peer']:
            if s.ok and not any(x.type == C.RST_STREAM for x in s.out_frames):
                self.fail('bad-promised-id-accepted', 'PUSH_PROMISE with an invalid promised id accepted', s, promised=p)
            return
        if not w.cfg[s.ep].get('validate_inbound', True):
            return
        lim = mine.get(C.S_MAX_HEADER_LIST_SIZE)
        if lim is not None and f.header_list_size > lim:
            return
        ok_hdrs = conformant(wire, 'request') is None
        enc = w.cfg[s.ep].get('header_encoding')
        if enc:
            try:
                for n, v in wire:
                    n.decode(enc), v.decode(enc)
            except UnicodeDecodeError:
                return
        if s.tainted and trk.table_size_changed:
            return
        if ok_hdrs:
            evs = [ev for ev in (s.events or []) if ev['t'] == 'PushedStreamReceived']
            if not s.ok or len(evs) != 1:
                if 'conn' in self.poison[s.ep] or f.sid in self.poison[s.ep]:
                    return
                self.fail('valid-push-refused', 'a valid PUSH_PROMISE was not reported', s,
                          exc=s.exc['type'] if s.exc else None)
                return
            ev = evs[0]
            want = event_expected(wire, w.cfg[s.ep])
            if ev['parent_stream_id'] != f.sid or ev['pushed_stream_id'] != p or \
                    [(h[0], h[1]) for h in ev['headers']] != want:
                self.fail('push-event-fields', 'PushedStreamReceived fields differ from the frame', s)
        elif s.ok:
            self.fail('invalid-push-accepted', 'PUSH_PROMISE with a non-conformant request block accepted', s,
                      why=conformant(wire, 'request'))

    def _push_call(self, w, e, s):
        a = s.args
        trk = e.trk
        sid, p = a.get('sid'), a.get('promised')
        pre = s.pre.get(sid) if isinstance(sid, int) else None
        cfg = w.cfg[s.ep]
        if s.snap['closed']:
            if s.ok:
                self.fail('push-after-close', 'push_stream succeeded on a closed connection', s)
            return
        wire = wire_expected(a['headers'], cfg)
        conds = {
            'server': not e.client,
            'peer_allows_push': bool(s.snap['peer'].get(C.S_ENABLE_PUSH, 1)),
            'parent_client_initiated_open': pre is not None and not pre.mine and pre.state in ('open', 'hcR'),
            'promised_id_valid': isinstance(p, int) and p > 0 and p % 2 == 0 and p > s.snap['hi_mine'] and p <= MAXID,
            'headers_valid': conformant(wire, 'request') is None,
        }
        if not (cfg.get('validate_outbound', True) and cfg.get('normalize_outbound', True)):
            conds['headers_valid'] = None     # not promised under this configuration
        want = all(v for v in conds.values() if v is not None)
        undecided = conds['headers_valid'] is None and all(v for k, v in conds.items() if k != 'headers_valid')
        if not conds['peer_allows_push'] or (pre is not None and pre.state == 'closed'):
            self.nontrivial = True
        if s.ok:
            self.probe('push_ok')
            if not want and not undecided:
                self.fail('push-accepted', 'push_stream succeeded although: %s' % ', '.join(k for k, v in conds.items() if v is False), s)
                return
            # the emitted PUSH_PROMISE: one block, on the parent, promising that id, and decoding (reference decoder that has
            # followed every byte this endpoint has emitted) to the request header list of the call - whatever was refused before
            blocks = [f for f in s.out_frames if f.type in (C.HEADERS, C.PUSH_PROMISE) and f.block_frames is not None]
            if len(blocks) != 1 or blocks[0].type != C.PUSH_PROMISE:
                self.fail('promise-emitted', 'push_stream emitted %d header blocks' % len(blocks), s)
                return
            f = blocks[0]
            if f.sid != sid or f.promised != p:
                self.fail('promise-emitted', 'PUSH_PROMISE on stream %r promising %r' % (f.sid, f.promised), s)
            elif f.hpack_error:
                self.probe('promise_after_refusal' if self.refused[s.ep] else 'promise_checked')
                self.fail('promise-undecodable', 'reference decoder: %s' % f.hpack_error, s, after_refused_push=self.refused[s.ep])
            else:
                self.probe('promise_after_refusal' if self.refused[s.ep] else 'promise_checked')
                got = [(n, v) for n, v, _ in f.headers]
                if got != wire:
                    self.fail('promise-headers', 'emitted PUSH_PROMISE does not decode to the request headers of the call', s,
                              got=got[:8], want=wire[:8], after_refused_push=self.refused[s.ep])
            return
        self.refused[s.ep] += 1
        self.probe('push_refused')
        if s.out:
            self.fail('refused-push-emitted', 'a raising push_stream emitted bytes', s)
        if want:
            if 'conn' in self.poison[s.ep] or sid in self.poison[s.ep]:
                return
            lim_ok = True
            if lim_ok:
                self.fail('push-refused', 'push_stream raised %s although every condition holds' % s.exc['type'], s,
                          where=s.exc['where'])
