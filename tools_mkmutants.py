#!/venv/bin/python
"""Developer tool: build single-site mutants of /repo/src/h2, keep those that leave the pinned test-suite at its
baseline, store them as /verif/mutants/<name>.diff with the properties they should break in mutants/index.json."""
import json, os, subprocess, sys

CANDS = [
 ('pad-length-byte-not-counted', 'connection.py', "            frame_size += pad_length + 1\n", "            frame_size += pad_length\n", ['C03', 'C02']),
 ('settings-delta-only-growth', 'connection.py', "        delta = new_value - old_value\n\n        for stream in self.streams.values():\n            stream.outbound_flow_control_window = guard_increment_window(",
  "        delta = max(new_value - old_value, 0)\n\n        for stream in self.streams.values():\n            stream.outbound_flow_control_window = guard_increment_window(", ['C03', 'C01']),
 ('window-update-over-max', 'windows.py', "            increment = min(self._bytes_processed, max_increment)\n            self._bytes_processed = 0\n        elif", "            increment = self._bytes_processed\n            self._bytes_processed = 0\n        elif", ['C05', 'C04']),
 ('window-threshold-strict', 'windows.py', "        elif self._bytes_processed >= (self.max_window_size // 2):", "        elif self._bytes_processed > (self.max_window_size // 2) + 1024:", ['C05']),
 ('max-frame-size-upper-bound', 'settings.py', "        if not 16384 <= value <= 16777215:  # 2^14 and 2^24 - 1", "        if not 16384 <= value <= 16777216:  # 2^14 and 2^24 - 1", ['C12']),
 ('initial-window-upper-bound', 'settings.py', "        if not 0 <= value <= 2147483647:  # 2^31 - 1", "        if not 0 <= value <= 2147483648:  # 2^31 - 1", ['C12']),
 ('enable-connect-protocol-unchecked', 'settings.py', "    elif setting == SettingCodes.ENABLE_CONNECT_PROTOCOL:\n        if value not in (0, 1):\n            return ErrorCodes.PROTOCOL_ERROR\n", "", ['C12']),
 ('priority-self-dependency-on-headers-ignored', 'connection.py', "        if event.depends_on == frame.stream_id:\n            raise ProtocolError(", "        if event.depends_on == frame.stream_id and not isinstance(frame, HeadersFrame):\n            raise ProtocolError(", ['C23', 'C06']),
 ('priority-exclusive-dropped', 'connection.py', "        event.exclusive = frame.exclusive\n", "        event.exclusive = frame.exclusive and frame.depends_on != 0\n", ['C23', 'C01']),
 ('ping-ack-second-in-call', 'connection.py', "            f = PingFrame(0)\n            f.flags = {'ACK'}\n            f.opaque_data = frame.opaque_data\n            flags.append(f)\n",
  "            f = PingFrame(0)\n            f.flags = {'ACK'}\n            f.opaque_data = frame.opaque_data\n            if not self._data_to_send.endswith(f.serialize()):\n                flags.append(f)\n", ['C26']),
 ('cookie-join-set-order', 'utilities.py', "        cookie_val = b'; '.join(cookies)\n", "        cookie_val = b'; '.join(sorted(set(cookies), key=hash))\n", ['C28', 'C01', 'C15']),
 ('next-stream-id-boundary', 'connection.py', "        if next_stream_id > self.HIGHEST_ALLOWED_STREAM_ID:\n            raise NoAvailableStreamIDError", "        if next_stream_id >= self.HIGHEST_ALLOWED_STREAM_ID:\n            raise NoAvailableStreamIDError", ['C09']),
 ('open-count-ignores-half-closed-local', 'stream.py', "STREAM_OPEN[StreamState.HALF_CLOSED_LOCAL] = True\n", "STREAM_OPEN[StreamState.HALF_CLOSED_LOCAL] = False\n", ['C10']),
 ('data-on-closed-stream-not-credited', 'connection.py', "        conn_increment = conn_manager.process_bytes(\n            frame.flow_controlled_length\n        )\n        if conn_increment:\n            f = WindowUpdateFrame(0)\n            f.window_increment = conn_increment\n            frames.append(f)\n            self.config.logger.debug(",
  "        conn_increment = None\n        if conn_increment:\n            f = WindowUpdateFrame(0)\n            f.window_increment = conn_increment\n            frames.append(f)\n            self.config.logger.debug(", ['C20', 'C05']),
 ('content-length-counts-padding', 'stream.py', "        self._track_content_length(len(data), end_stream)\n", "        self._track_content_length(flow_control_len, end_stream)\n", ['C16', 'C01']),
 ('goaway-last-stream-outbound', 'connection.py', "        f = GoAwayFrame(0)\n        f.last_stream_id = self.highest_inbound_stream_id\n", "        f = GoAwayFrame(0)\n        f.last_stream_id = max(self.highest_inbound_stream_id,\n                               self.highest_outbound_stream_id)\n", ['C18']),
 ('goaway-keeps-output', 'connection.py', "        # Clear the outbound data buffer: we cannot send further data now.\n        self.clear_outbound_data_buffer()\n", "", ['C19']),
 ('preface-split-compare', 'frame_buffer.py', "            self._preamble_len -= of_which_preamble\n            self._preamble = self._preamble[of_which_preamble:]\n", "            self._preamble_len -= of_which_preamble\n", ['C21', 'C17']),
 ('closed-stream-memory-unbounded', 'utilities.py', "            while len(self) > self._size_limit:\n                self.popitem(last=False)\n", "            while len(self) > self._size_limit * 2 + 8:\n                self.popitem(last=False)\n", ['C27']),
 ('recursive-push-allowed-on-receive', 'connection.py', "        if (frame.stream_id % 2) == 0:\n            raise ProtocolError(\"Cannot recursively push streams.\")\n\n        try:\n            frames, stream_events = stream.receive_push_promise_in_band(", "        try:\n            frames, stream_events = stream.receive_push_promise_in_band(", ['C22', 'C06']),
 ('altsvc-after-response-headers', 'stream.py', "        if self.headers_received:\n            return []\n\n        # Otherwise, this is a sensible enough frame to have received.", "        if self.trailers_received:\n            return []\n\n        # Otherwise, this is a sensible enough frame to have received.", ['C24', 'C01']),
 ('rst-on-closed-gives-event', 'stream.py', "    (StreamState.CLOSED, StreamInputs.RECV_RST_STREAM):\n        (None, StreamState.CLOSED),\n", "    (StreamState.CLOSED, StreamInputs.RECV_RST_STREAM):\n        (H2StreamStateMachine.stream_reset, StreamState.CLOSED),\n", ['C07', 'C06', 'C20']),
 ('settings-ack-event-all-local', 'connection.py', "            changed_settings = self._local_settings_acked()\n            ack_event = SettingsAcknowledged()\n            ack_event.changed_settings = changed_settings\n", "            changed_settings = self._local_settings_acked()\n            ack_event = SettingsAcknowledged()\n            ack_event.changed_settings = changed_settings or {}\n            if not changed_settings and self._unacknowledged_settings:\n                self._unacknowledged_settings.popleft()\n", ['C11']),
 ('upgrade-settings-not-acked', 'connection.py', "            f = SettingsFrame(0)\n            f.parse_body(settings_header)\n            self._receive_settings_frame(f)\n", "            f = SettingsFrame(0)\n            f.parse_body(settings_header)\n            self.remote_settings.update(f.settings)\n", ['C25']),
 ('end-stream-on-unsent-headers-client', 'connection.py', "        if not (1 <= increment <= self.MAX_WINDOW_INCREMENT):", "        if not (1 <= increment <= self.MAX_WINDOW_INCREMENT + 1):", ['C29', 'C04']),
 ('max-header-list-size-on-send', 'connection.py', "        if SettingCodes.MAX_HEADER_LIST_SIZE in changes:\n            setting = changes[SettingCodes.MAX_HEADER_LIST_SIZE]\n            self.decoder.max_header_list_size = setting.new_value\n", "        if SettingCodes.MAX_HEADER_LIST_SIZE in changes:\n            setting = changes[SettingCodes.MAX_HEADER_LIST_SIZE]\n            self.decoder.max_header_list_size = max(\n                setting.new_value, setting.original_value or 0\n            )\n", ['C27', 'C11']),
 ('te-trailers-case', 'utilities.py', "            if header[1].lower() not in (b'trailers', u'trailers'):", "            if header[1] not in (b'trailers', u'trailers', b'Trailers', u'Trailers', b'TRAILERS'):", ['C15', 'C14']),
 ('never-indexed-cookie-threshold', 'utilities.py', "        elif header[0] in (b'cookie', u'cookie') and len(header[1]) < 20:", "        elif header[0] in (b'cookie', u'cookie') and len(header[1]) < 19:", ['C14']),
]


def sh(cmd):
    return subprocess.run(cmd, shell=True, capture_output=True, text=True)


def main():
    os.makedirs('/verif/mutants', exist_ok=True)
    idxp = '/verif/mutants/index.json'
    index = json.load(open(idxp)) if os.path.exists(idxp) else {}
    for name, fn, old, new, props in CANDS:
        if name in index and os.path.exists('/verif/mutants/%s.diff' % name):
            continue
        path = '/repo/src/h2/' + fn
        s = open(path).read()
        if s.count(old) != 1:
            print(name, 'SITE-NOT-UNIQUE', s.count(old))
            continue
        open(path, 'w').write(s.replace(old, new))
        r = sh('/verif/tools_baseline.sh')
        ok = 'BASELINE-OK' in r.stdout
        if ok:
            d = sh('git -C /repo diff -- src').stdout
            open('/verif/mutants/%s.diff' % name, 'w').write(d)
            index[name] = props
        sh('git -C /repo reset -q --hard HEAD')
        print(name, 'KEPT' if ok else 'TESTS-CATCH-IT', r.stdout.strip().splitlines()[-2:] if not ok else '')
    json.dump(index, open(idxp, 'w'), indent=1, sort_keys=True)


main()
