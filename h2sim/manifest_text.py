"""Texts for MANIFEST.json, per property."""
from . import props

SIM = ('Exploration by deterministic simulation: seeded runs of two real H2Connection endpoints driven by simulated '
       'applications over a simulated duplex byte network (arbitrary segmentation, stalls, crossing directions, misuse, '
       'aftermath of refused calls, and - where listed - byte/frame corruption and an adversary peer whose arbitrary '
       'frames are tried in what-if branches: deep copies of the whole simulation that are judged and dropped), ')
NOTE = ('Sampling, not proof. Trusted base: CPython, hyperframe/hpack as installed, the oracle codec / reference HPACK '
        'decoder / wire tracker of h2sim (self-tested by setup_cmd against RFC vectors and differentially).')

ORACLE = {
 'C02': 'every output byte parsed by an independent codec; per-call frame specification (ids, flags, padding, priority fields, codes, increments, settings, payloads) and MAX_FRAME_SIZE as received at emission time',
 'C03': 'send windows recomputed from delivered SETTINGS/WINDOW_UPDATE and emitted DATA only; compared with local_flow_control_window after every step and with every send_data outcome',
 'C04': 'advertised windows recomputed from acknowledged INITIAL_WINDOW_SIZE, emitted WINDOW_UPDATE and delivered DATA; compared with remote_flow_control_window after every step (also after failing calls); overrun <=> FLOW_CONTROL_ERROR',
 'C05': 'credit accounting of acknowledge_received_data vs emitted WINDOW_UPDATE; windows never above maximum; progress at every quiescent point (all received bytes acknowledged => positive windows)',
 'C07': 'per-stream grammar automaton over the returned events only, for client and server roles, including related-event links',
 'C17': 'receive_data returns a list or raises ProtocolError - anything else is a violation (signature: exception type @ raising function)',
 'C18': 'exactly one GOAWAY per raising receive_data, code = exception code = category assigned by an independent classifier to the offending delivered frame (incl. STREAM_CLOSED for HEADERS on a stream that ended normally), last-stream-id = highest peer-opened stream',
 'C19': 'after any close (GOAWAY sent/received, connection error) only GOAWAY frames are emitted and every frame-producing call raises ProtocolError',
 'C26': 'per delivered PING exactly one PingReceived and one PING ACK with identical payload in order; a chunk of nothing but well-formed PINGs never raises (floods of > 64 included); PING ACK never answered; ping() emits exactly one PING and accepts only 8-byte bytes; lazy-read twin: with output left in the buffer the byte stream is the same (the ACK is appended)',
 'C29': 'every raising public call raises an h2 exception (or the documented ValueError/TypeError), emits no bytes, and uses NoSuchStreamError / StreamClosedError for never-used / collected streams; acknowledge_received_data on a never-used id must raise',
}
ORACLE.update({
 'C01': 'end-to-end history matcher: every frame delivered to the receiver is linked (by stream offset) to the successful call that produced it; the receiver events must equal, in order and bijectively, what that call specifies (normalised headers, body bytes, END_STREAM, trailers, 1xx, resets and codes, pushes, pings, priority, settings, alt-svc, window updates), no receiver exception; plus a fault-free epilogue exchange that must complete (bounded liveness)',
 'C06': 'RFC 7540 5.1 reference table (h2sim/rules.py) evaluated on the wire-tracked pre-state: each call must succeed/fail and each delivered frame must be accepted / ignored / answered with a stream error / a connection error with the mandated code, explicit either-cells for unspecified cases, sound closed-stream memory rule; measured coverage of (role x state x input) cells',
 'C08': 'per-stream automaton over the frames actually emitted (request or 1xx*/final, DATA, trailers+END_STREAM; a responder block without :status before the final response is a trailer block out of order), role restrictions, refusal exception type',
 'C09': 'ids of every opened/promised stream strictly increasing with the right parity and <= 2^31-1; get_next_available_stream_id against the wire-derived watermark; reference verdicts for peer frames on idle/skipped/closed ids; PRIORITY leaves the bookkeeping untouched',
 'C10': 'open/half-closed stream counts from the wire tracker vs open_*_streams; opening sends vs the peer limit as received; peer HEADERS vs the acknowledged local limit',
 'C11': 'FIFO queue of sent SETTINGS frames matched one-to-one with delivered ACKs: SettingsAcknowledged.changed_settings must equal that frame only; RemoteSettingsChanged old/new; exactly one ACK per received frame',
 'C12': 'independent verdict table per (identifier, value) incl. the history-dependent window-overflow clause (reserved streams included), for delivered frames, update_settings, initial values and the HTTP2-Settings header of an h2c upgrade',
 'C13': 'reference HPACK decoder on every emitted block: must decode to the normalised list of the successful call, also right after failing header calls; the real peer must deliver the same list; encoder table never above the peer limit',
 'C14': 'independent 8.1.2 conformance predicate + never-indexed representation check on tap-decoded blocks, per outbound validate/normalise combination',
 'C15': 'delivered <=> conformant (independent predicate) for blocks in positions the stream state permits; refusal code; delivered list = decoded block with cookie join / header_encoding',
 'C16': 'running body totals per received message vs declared content-length at every END_STREAM placement; no-content responses judged on payload only',
 'C20': 'frames delivered on streams the receiver had reset (or whose push it refused) must cause no connection error and no events; compression stays in sync; DATA on them is credited back to the connection window (C05 credit ledger run per step, judged after DATA on a reset stream)',
 'C21': 're-chunk twin (at once vs byte-at-a-time / random partition) and read-amount twin on fresh connections: emitted bytes, events, call outcomes, errors must agree',
 'C22': 'push_stream succeeds iff server & peer allows push (as received) & client-initiated open/half-closed(remote) parent & valid request list & fresh even promised id; client side: disabled push => connection error, valid promise => PushedStreamReceived with right ids and headers, recursion refused',
 'C23': 'received PRIORITY => exactly one PriorityUpdated (self-dependency: PROTOCOL_ERROR), no output, flow-control state of all streams unchanged; priority fields of HEADERS frames (any number of CONTINUATION frames) attached to the header event; round trip of prioritize()/send_headers() arguments to the peer event and to the emitted frame; local argument validation (weight, self-dependency, 31-bit dependency); HEADERS on idle ids below a prioritised idle id still accepted',
 'C24': 'advertise_alternative_service permission table; delivered ALTSVC frames yield exactly the event RFC 7838 prescribes (origin given or own :authority, only before response headers) or are silently ignored',
 'C25': 'server view of client settings (public remote_settings mapping) equals client local settings over the settings space; stream 1 half-closed both ways; ids 3 / 2 next; continuation judged by the C01 matcher and by the C03 send-window oracle (non-default INITIAL_WINDOW_SIZE handed over)',
 'C27': 'retained-table sizes after every step: stream table == live streams after clean-up and never growing on a closed connection, closed-stream memory <= cap, CONTINUATION backlog <= cap, input buffer <= one frame; CONTINUATION floods (also of empty fragments) and oversize header lists refused (ENHANCE_YOUR_CALM at the acknowledged limit)',
 'C28': 'process twin: every trace re-executed in fresh interpreters under other PYTHONHASHSEED values, digest of all outputs/events/exceptions (type, code and message text, addresses masked) identical; tripwires on clocks, random and os.urandom; a replay file records the hash seeds that disagreed',
})
TECH = {
 'C02': 'deterministic simulation, independent wire tap, call-to-frames specification oracle',
 'C03': 'deterministic simulation with crossing WINDOW_UPDATE/SETTINGS, wire-derived send-window oracle',
 'C04': 'deterministic simulation with lazy/failing window calls and corrupted DATA, wire-derived receive-window oracle',
 'C05': 'deterministic simulation with lazy acknowledgement schedules, conservation + bounded-liveness oracle',
 'C07': 'deterministic simulation with adversary/fault injection, event-grammar automaton',
 'C17': 'deterministic simulation + byte/frame fault injection, exception-type oracle',
 'C18': 'deterministic simulation + fault injection, independent error classifier',
 'C19': 'deterministic simulation with close by every route followed by call/frame tails',
 'C26': 'deterministic simulation with ping bursts, duplication faults, exactly-once oracle',
 'C29': 'deterministic simulation with 40% misuse calls incl. collected streams, exception/no-output oracle',
}
TECH.update({
 'C01': 'deterministic simulation (crossing directions, mid-frame chunks, failing calls), end-to-end history matcher + bounded-liveness epilogue',
 'C06': 'deterministic simulation with adversary peer, refinement against an RFC 7540 5.1 reference table',
 'C08': 'deterministic simulation with ordering misuse, emitted-frame grammar automaton',
 'C09': 'deterministic simulation with user-chosen and adversary ids, watermark oracle',
 'C10': 'deterministic simulation with limit changes crossing openings, wire-derived stream counts',
 'C11': 'deterministic simulation with several SETTINGS outstanding and delayed/bursty ACKs, FIFO ACK-matching oracle',
 'C12': 'deterministic simulation with field faults on live SETTINGS frames, independent verdict table',
 'C13': 'deterministic simulation with failing header calls, reference HPACK decoder on the wire',
 'C14': 'deterministic simulation over the outbound config matrix, conformance predicate on tap-decoded blocks',
 'C15': 'deterministic simulation with sloppy senders and adversary blocks, conformance <=> delivery oracle',
 'C16': 'deterministic simulation with lying applications and adversary, content-length accounting oracle',
 'C20': 'deterministic simulation with stalled RST_STREAM crossing in-flight frames, non-event oracle',
 'C21': 'differential re-execution (re-chunk and read-amount twins) of simulated traces',
 'C22': 'deterministic simulation with ENABLE_PUSH changes in flight, iff oracle on push conditions',
 'C23': 'deterministic simulation with PRIORITY on every id class, state-unchanged oracle',
 'C24': 'deterministic simulation, RFC 7838 permission/event table',
 'C25': 'deterministic simulation started via the h2c upgrade path, settings-view and stream-1 oracle',
 'C27': 'long adversarial churn simulation with retained-state measurements',
 'C28': 'differential re-execution of simulated traces in fresh interpreters (hash seeds) with tripwires',
})
TEXT = {}
for pid, spec in props.SPECS.items():
    profs = ', '.join(p for p, _ in spec.quick)
    TEXT[pid] = {
        'level': SIM + 'profiles %s. Oracle: %s. Failures are minimised by delta debugging to a replayable event trace and re-confirmed in a fresh interpreter.' % (profs, ORACLE.get(pid, 'see DESIGN.md')),
        'ref': 'DESIGN.md section 6 / %s' % pid,
        'note': NOTE,
        'technique': TECH.get(pid, 'deterministic simulation with fault injection'),
    }
ALL = ['C%02d' % i for i in range(1, 30)]
NOT_APPLICABLE = [{'property_id': p, 'reason': 'check not yet built in this round (planned, see DESIGN.md section 6); not a claim of inapplicability'} for p in ALL if p not in TEXT]
