"""Mode-B (Byzantine path) faults on the undelivered backlog of a direction.

Every fault is an event with concrete parameters; applying it is a total,
deterministic function of the backlog (a fault whose target no longer exists
is a no-op and is counted as *not fired*).
"""
import struct

from . import codec as C

KINDS = ['flip', 'field', 'drop', 'dup', 'swap', 'truncate', 'hpack_garbage', 'lenfix_payload']


def frame_spans(world, d):
    """[(start, end)] of the complete frames in the backlog of direction d, as
    the receiver will see them (skips the tail of a partly delivered frame and
    the rest of the client preface)."""
    p = world.pipes[d]
    tap = world.eps[world.dst_of(d)].in_tap
    if tap.preface_bad:
        return []
    b = p.backlog
    pos = len(tap.preface_left)
    held = len(tap.buf)
    if held:
        if held >= 9:
            ln = (tap.buf[0] << 16) | (tap.buf[1] << 8) | tap.buf[2]
            need = 9 + ln - held
        else:
            hdr = bytes(tap.buf) + bytes(b[pos:pos + 9 - held])
            if len(hdr) < 9:
                return []
            ln = (hdr[0] << 16) | (hdr[1] << 8) | hdr[2]
            need = 9 + ln - held
        pos += need
    spans = []
    while pos + 9 <= len(b):
        ln = (b[pos] << 16) | (b[pos + 1] << 8) | b[pos + 2]
        end = pos + 9 + ln
        if end > len(b):
            break
        spans.append((pos, end))
        pos = end
    return spans


def apply(world, ev):
    d = ev['dir']
    p = world.pipes[d]
    b = p.backlog
    k = ev['kind']
    if k == 'flip':
        off = ev['off']
        if off >= len(b) or not ev['xor']:
            return False
        b[off] ^= ev['xor'] & 0xff
        p.tainted = True
        return True
    spans = frame_spans(world, d)
    fi = ev.get('fi', 0)
    if fi >= len(spans):
        return False
    s, e = spans[fi]
    if k == 'drop':
        del b[s:e]
    elif k == 'dup':
        b[e:e] = b[s:e]
    elif k == 'swap':
        if fi + 1 >= len(spans):
            return False
        s2, e2 = spans[fi + 1]
        first, second = bytes(b[s:e]), bytes(b[s2:e2])
        b[s:e2] = second + first
    elif k == 'truncate':
        n = min(ev['n'], e - s - 9)
        if n <= 0:
            return False
        del b[e - n:e]
    elif k == 'field':
        what = ev['what']
        if what == 'len':
            b[s:s + 3] = struct.pack('>I', ev['val'] & 0xffffff)[1:]
        elif what == 'type':
            b[s + 3] = ev['val'] & 0xff
        elif what == 'flags':
            b[s + 4] = ev['val'] & 0xff
        elif what == 'sid':
            b[s + 5:s + 9] = struct.pack('>I', ev['val'] & 0xffffffff)
        elif what == 'u32':
            off = s + 9 + ev['poff']
            if off + 4 > e:
                return False
            b[off:off + 4] = struct.pack('>I', ev['val'] & 0xffffffff)
        elif what == 'u16':
            off = s + 9 + ev['poff']
            if off + 2 > e:
                return False
            b[off:off + 2] = struct.pack('>H', ev['val'] & 0xffff)
        elif what == 'u8':
            off = s + 9 + ev['poff']
            if off + 1 > e:
                return False
            b[off] = ev['val'] & 0xff
        else:
            return False
    elif k == 'hpack_garbage' or k == 'lenfix_payload':
        # replace the payload (after `keep` bytes) by given bytes and fix the length
        keep = min(ev.get('keep', 0), e - s - 9)
        new = bytes(b[s + 9:s + 9 + keep]) + ev['bytes']
        if len(new) > 0xffffff:
            return False
        b[s:e] = struct.pack('>I', len(new))[1:] + bytes(b[s + 3:s + 9]) + new
    else:
        return False
    p.tainted = True
    return True


U32_POOL = [0, 1, 2, 3, 100, 16383, 16384, 16385, 65535, 65536, 2 ** 24 - 1, 2 ** 24, 2 ** 31 - 1, 2 ** 31,
            2 ** 31 + 1, 2 ** 32 - 1]


def draw(gen):
    """Draw one fault event for the current state (or None)."""
    rng = gen.rng
    w = gen.w
    d = rng.choice(['c2s', 's2c'])
    p = w.pipes[d]
    if not p.backlog:
        d = 'c2s' if d == 's2c' else 's2c'
        p = w.pipes[d]
        if not p.backlog:
            return None
    spans = frame_spans(w, d)
    kind = rng.choice(KINDS)
    if kind == 'flip' or not spans:
        # favour frame-header bytes
        if spans and rng.random() < 0.6:
            s, e = rng.choice(spans)
            off = s + rng.randrange(9)
        else:
            off = rng.randrange(len(p.backlog))
        return {'ev': 'fault', 'kind': 'flip', 'dir': d, 'off': off, 'xor': 1 << rng.randrange(8)}
    fi = rng.randrange(len(spans))
    s, e = spans[fi]
    ftype = p.backlog[s + 3]
    plen = e - s - 9
    if kind in ('drop', 'dup', 'swap'):
        return {'ev': 'fault', 'kind': kind, 'dir': d, 'fi': fi}
    if kind == 'truncate':
        if plen == 0:
            return {'ev': 'fault', 'kind': 'drop', 'dir': d, 'fi': fi}
        return {'ev': 'fault', 'kind': 'truncate', 'dir': d, 'fi': fi, 'n': rng.randrange(1, plen + 1)}
    if kind == 'field':
        what = rng.choice(['len', 'type', 'flags', 'sid', 'u32', 'u32', 'u16', 'u8'])
        if what == 'len':
            val = rng.choice([0, 1, plen - 1 if plen else 1, plen + 1, 4, 5, 6, 8, 16384, 16385, 2 ** 24 - 1])
        elif what == 'type':
            val = rng.choice(list(range(11)) + [11, 64, 255])
        elif what == 'flags':
            val = rng.choice([0, 1, 4, 5, 8, 0x20, 0x2d, 0xff, p.backlog[s + 4] ^ (1 << rng.randrange(8))])
        elif what == 'sid':
            cur = struct.unpack('>I', bytes(p.backlog[s + 5:s + 9]))[0]
            val = rng.choice([0, 1, 2, 3, cur + 1, cur + 2, max(cur - 2, 0), 2 ** 31 - 1, 2 ** 31 | cur, 2 ** 32 - 1])
        elif what == 'u32':
            poff = rng.choice([0, 0, 0, 1, 2, 4, 6]) if plen >= 4 else 0
            if ftype == C.SETTINGS and plen >= 6:
                poff = 6 * rng.randrange(plen // 6) + 2
            return {'ev': 'fault', 'kind': 'field', 'dir': d, 'fi': fi, 'what': 'u32', 'poff': poff,
                    'val': rng.choice(U32_POOL)}
        elif what == 'u16':
            poff = 0
            if ftype == C.SETTINGS and plen >= 6:
                poff = 6 * rng.randrange(plen // 6)
            return {'ev': 'fault', 'kind': 'field', 'dir': d, 'fi': fi, 'what': 'u16', 'poff': poff,
                    'val': rng.choice([0, 1, 2, 3, 4, 5, 6, 7, 8, 9, 255, 256, 65535])}
        else:
            return {'ev': 'fault', 'kind': 'field', 'dir': d, 'fi': fi, 'what': 'u8', 'poff': rng.randrange(max(plen, 1)),
                    'val': rng.choice([0, 1, 127, 128, 255])}
        return {'ev': 'fault', 'kind': 'field', 'dir': d, 'fi': fi, 'what': what, 'val': val}
    # hpack_garbage / lenfix_payload
    if ftype in (C.HEADERS, C.PUSH_PROMISE, C.CONTINUATION):
        keep = 4 if ftype == C.PUSH_PROMISE else 0
        g = rng.randrange(6)
        if g == 0:
            blob = bytes(rng.randrange(256) for _ in range(rng.randrange(1, 40)))
        elif g == 1:
            blob = b'\xff' + b'\xff' * rng.randrange(1, 12) + b'\x7f'      # over-long integer
        elif g == 2:
            blob = bytes([0x80 | rng.choice([0, 62, 63, 100, 126])])         # index 0 / past the table
        elif g == 3:
            blob = b'\x3f' + bytes([0xe1, 0xff, 0x03])                        # table size update 65536+
        elif g == 4:
            blob = b'\x00\x00\x01v'                                           # empty header name literal
        else:
            blob = b'\x40\x83\xff\xff\xff\x01v'                               # bad huffman in name
        return {'ev': 'fault', 'kind': 'hpack_garbage', 'dir': d, 'fi': fi, 'keep': keep, 'bytes': blob}
    blob = bytes(rng.randrange(256) for _ in range(rng.choice([0, 1, 3, 4, 5, 6, 7, 8, 9, 12])))
    return {'ev': 'fault', 'kind': 'lenfix_payload', 'dir': d, 'fi': fi, 'keep': 0, 'bytes': blob}
