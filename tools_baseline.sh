#!/bin/bash
# Runs the pinned test-suite of /repo and compares with the baseline (1403 pass, 11 known hypothesis health-check failures).
cd /repo && /venv/bin/python -m pytest -q -p no:cacheprovider --timeout=900 2>&1 | grep -E "^FAILED|passed|failed" > /tmp/.baseline_now.txt
grep -c "^FAILED" /tmp/.baseline_now.txt | xargs echo failed:
tail -1 /tmp/.baseline_now.txt
grep "^FAILED" /tmp/.baseline_now.txt | sed 's/ - .*//' | sort > /tmp/.baseline_failed.txt
diff /tmp/.baseline_failed.txt /verif/baseline_failed.txt && grep -q "1403 passed" /tmp/.baseline_now.txt && echo BASELINE-OK || { echo BASELINE-DIFFERS; exit 1; }
