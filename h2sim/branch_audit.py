"""Self-test of the what-if branches: a branch executed on a deep copy of the
simulation must be indistinguishable from a from-scratch replay of its trace
(same steps, bytes, events, exceptions, same monitor verdicts and probes)."""
import hashlib
import sys


def world_digest(w, mons):
    h = hashlib.sha256()
    for s in w.steps:
        h.update(repr((s.idx, s.ep, s.kind, s.op, s.ok, (s.exc or {}).get('type'), (s.exc or {}).get('where'),
                       s.tainted if s.kind == 'recv' else None, s.exact if s.kind == 'recv' else None)).encode())
        h.update(s.out or b'')
        h.update(s.chunk or b'')
        if s.events is not None:
            for e in s.events:
                h.update(repr(sorted((k, repr(v)) for k, v in e.items())).encode())
    for m in mons:
        h.update(repr(sorted(m.probes.items())).encode())
        h.update(repr([v.signature for v in m.violations]).encode())
        h.update(repr(m.nontrivial).encode())
    for ep in ('c', 's'):
        t = w.eps[ep].trk
        h.update(repr((t.hi_mine, t.hi_peer, t.conn_send, t.conn_recv, t.closed,
                       sorted((st.sid, st.state, st.send_win, st.recv_win) for st in t.streams.values()))).encode())
    return h.hexdigest()


def audit(prop, profile, n, base_seed=1):
    from . import props, runner
    from .gen import Gen
    from .world import run_trace
    spec = props.SPECS[prop]
    opts = runner.base_opts(prop)
    checked = bad = 0
    for i in range(n):
        sd = runner.seed64(base_seed, profile, i)
        mons = spec.monitors()
        g = Gen(sd, profile, mons, overrides=spec.overrides(profile), avoid=spec.avoid_for(sd, opts))
        got = []
        g.branch_cb = lambda b: got.append((world_digest(b.w, b.w.monitors), list(b.w.trace)))
        g.run()
        for dg, trace in got:
            m2 = spec.monitors()
            w2 = run_trace(g.cfg, trace, m2)
            checked += 1
            if world_digest(w2, m2) != dg:
                bad += 1
                print('BRANCH-MISMATCH %s %s run %d seed %d (trace of %d events)' % (prop, profile, i, sd, len(trace)))
    return checked, bad


if __name__ == '__main__':
    sys.path.insert(0, '/repo/src')
    c, b = audit(sys.argv[1], sys.argv[2], int(sys.argv[3]))
    print('branches checked: %d, mismatches: %d' % (c, b))
    sys.exit(1 if b else 0)
