"""C09 - stream identifiers are allocated and checked per RFC 7540 section 5.1.1."""
from .c06 import C06
from .. import codec as C

MAXID = 2 ** 31 - 1


class C09(C06):
    prop = 'C09'
    name = 'stream-ids'

    def on_step(self, w, s):
        e = w.eps[s.ep]
        trk = e.trk
        # locally opened / promised ids
        for f in s.out_frames:
            if s.kind != 'call':
                break
            if f.type == C.HEADERS and f.block_frames is not None and (s.pre or {}).get(f.sid) is None:
                if f.sid <= s.snap['hi_mine'] or not trk.is_mine(f.sid) or f.sid > MAXID or \
                        f.sid != (s.args or {}).get('sid'):
                    self.fail('bad-opened-id', 'stream opened with a non-increasing / wrong-parity / out-of-range id', s,
                              sid=f.sid, highest=s.snap['hi_mine'], asked=(s.args or {}).get('sid'))
                self.probe('opened')
                if f.sid >= MAXID - 2 or f.sid > s.snap['hi_mine'] + 2:
                    self.probe('id_boundary_or_skip')
                    self.nontrivial = True
            if f.type == C.PUSH_PROMISE and f.block_frames is not None:
                p = f.promised
                if p <= s.snap['hi_mine'] or p % 2 or p > MAXID or p != (s.args or {}).get('promised'):
                    self.fail('bad-promised-id', 'promised id not increasing / not even / out of range', s, promised=p)
        if s.kind == 'call' and s.op == 'get_next_available_stream_id':
            hi = s.snap['hi_mine']
            want = (hi + 2) if hi else (1 if e.client else 2)
            self.probe('next_id_query')
            if want > MAXID:
                if s.ok or s.exc['type'] != 'NoAvailableStreamIDError':
                    self.fail('next-id', 'ids exhausted but no NoAvailableStreamIDError', s, got=s.ret)
            elif not s.ok or s.ret != want:
                self.fail('next-id', 'get_next_available_stream_id is not the smallest unused id', s, got=s.ret, want=want,
                          exc=s.exc['type'] if s.exc else None)
        if s.kind == 'call' and s.op in ('send_headers', 'push_stream') and not s.ok:
            self.nontrivial = True
        # peer ids and id bookkeeping: the lifecycle judgement restricted to stream-opening frames and calls
        if s.kind == 'call':
            if s.op in ('send_headers', 'push_stream'):
                return C06.on_step(self, w, s)
            return
        if s.exact and s.units[0].type in (C.HEADERS, C.PUSH_PROMISE):
            pre = s.pre[0]
            u = s.units[0]
            repromise = u.type == C.PUSH_PROMISE and (not u.promised or u.promised % 2 or u.promised <= s.snap['hi_peer'])
            if pre is None or pre.state == 'closed' or repromise:
                self.nontrivial = True
                if repromise:
                    self.probe('promise_of_used_id')
                return C06.on_step(self, w, s)
