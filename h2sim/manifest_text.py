"""Texts for MANIFEST.json, per property."""
from . import props

SIM = ('Exploration by deterministic simulation: seeded runs of two real H2Connection endpoints driven by simulated '
       'applications over a simulated duplex byte network (arbitrary segmentation, stalls, crossing directions, misuse, '
       'and - where listed - byte/frame corruption and an adversary peer), ')
NOTE = ('Sampling, not proof. Trusted base: CPython, hyperframe/hpack as installed, the oracle codec / reference HPACK '
        'decoder / wire tracker of h2sim (self-tested by setup_cmd against RFC vectors and differentially).')

ORACLE = {
 'C02': 'every output byte parsed by an independent codec; per-call frame specification (ids, flags, padding, priority fields, codes, increments, settings, payloads) and MAX_FRAME_SIZE as received at emission time',
 'C03': 'send windows recomputed from delivered SETTINGS/WINDOW_UPDATE and emitted DATA only; compared with local_flow_control_window after every step and with every send_data outcome',
 'C04': 'advertised windows recomputed from acknowledged INITIAL_WINDOW_SIZE, emitted WINDOW_UPDATE and delivered DATA; compared with remote_flow_control_window after every step (also after failing calls); overrun <=> FLOW_CONTROL_ERROR',
 'C05': 'credit accounting of acknowledge_received_data vs emitted WINDOW_UPDATE; windows never above maximum; progress at every quiescent point (all received bytes acknowledged => positive windows)',
 'C07': 'per-stream grammar automaton over the returned events only, for client and server roles, including related-event links',
 'C17': 'receive_data returns a list or raises ProtocolError - anything else is a violation (signature: exception type @ raising function)',
 'C18': 'exactly one GOAWAY per raising receive_data, code = exception code = category assigned by an independent classifier to the offending delivered frame, last-stream-id = highest peer-opened stream',
 'C19': 'after any close (GOAWAY sent/received, connection error) only GOAWAY frames are emitted and every frame-producing call raises ProtocolError',
 'C26': 'per delivered PING exactly one PingReceived and one PING ACK with identical payload in order; PING ACK never answered; ping() emits exactly one PING and accepts only 8-byte bytes',
 'C29': 'every raising public call raises an h2 exception (or the documented ValueError/TypeError), emits no bytes, and uses NoSuchStreamError / StreamClosedError for never-used / collected streams',
}
TECH = {
 'C02': 'deterministic simulation, independent wire tap, call-to-frames specification oracle',
 'C03': 'deterministic simulation with crossing WINDOW_UPDATE/SETTINGS, wire-derived send-window oracle',
 'C04': 'deterministic simulation with lazy/failing window calls and corrupted DATA, wire-derived receive-window oracle',
 'C05': 'deterministic simulation with lazy acknowledgement schedules, conservation + bounded-liveness oracle',
 'C07': 'deterministic simulation with adversary/fault injection, event-grammar automaton',
 'C17': 'deterministic simulation + byte/frame fault injection, exception-type oracle',
 'C18': 'deterministic simulation + fault injection, independent error classifier',
 'C19': 'deterministic simulation with close by every route followed by call/frame tails',
 'C26': 'deterministic simulation with ping bursts, duplication faults, exactly-once oracle',
 'C29': 'deterministic simulation with 40% misuse calls incl. collected streams, exception/no-output oracle',
}
TEXT = {}
for pid, spec in props.SPECS.items():
    profs = ', '.join(p for p, _ in spec.quick)
    TEXT[pid] = {
        'level': SIM + 'profiles %s. Oracle: %s. Failures are minimised by delta debugging to a replayable event trace and re-confirmed in a fresh interpreter.' % (profs, ORACLE.get(pid, 'see DESIGN.md')),
        'ref': 'DESIGN.md section 6 / %s' % pid,
        'note': NOTE,
        'technique': TECH.get(pid, 'deterministic simulation with fault injection'),
    }
ALL = ['C%02d' % i for i in range(1, 30)]
NOT_APPLICABLE = [{'property_id': p, 'reason': 'check not yet built in this round (planned, see DESIGN.md section 6); not a claim of inapplicability'} for p in ALL if p not in TEXT]
