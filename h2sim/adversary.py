"""Adversary peer stub: frames from a structural grammar written against
RFC 7540 (not against h2), injected into a direction at a frame boundary.
Header blocks are HPACK-encoded statelessly (static-table references and
literals without indexing), so they are decodable whatever the dynamic table
holds - or are deliberately garbage.
"""
import struct

from . import codec as C
from .faults import frame_spans
from .hpackref import RefEncoder

MAXID = 2 ** 31 - 1


def _sid(gen, vt, victim_is_server):
    """A stream id from one of the interesting classes, from the victim's view."""
    rng = gen.rng
    peer_parity = 1 if victim_is_server else 0      # ids the stub (peer of victim) may open
    k = rng.randrange(12)
    live = [s for s in vt.streams.values()]
    hot = getattr(gen, 'hot_ids', {}).get('s' if victim_is_server else 'c')
    if hot and rng.random() < 0.3:
        return rng.choice(hot)          # an id the victim's application named in a call that was refused
    if getattr(gen, 'adv_new_streams', 0) and rng.random() < gen.adv_new_streams:
        return vt.hi_peer + 2 if vt.hi_peer else (1 if peer_parity else 2)
    if k <= 3 and live:
        return rng.choice(live).sid
    if k == 4:
        return 0
    if k in (5, 6):
        nxt = vt.hi_peer + 2 if vt.hi_peer else (1 if peer_parity else 2)
        return nxt
    if k == 7:
        nxt = vt.hi_peer + 2 if vt.hi_peer else (1 if peer_parity else 2)
        return nxt + 2 * rng.randrange(1, 5)
    if k == 8:
        return (vt.hi_mine + 2) if vt.hi_mine else (2 if peer_parity else 1)   # victim's own parity, never used
    if k == 9:
        return rng.choice([MAXID, MAXID - 1, 1, 2, 3])
    if k == 10 and live:
        closed = [s for s in live if s.state == 'closed']
        if closed:
            return rng.choice(closed).sid
    if k == 11 and vt.hi_mine > 1:
        # a never-used id of the peer's parity that lies below the victim's own watermark (the two id spaces are
        # independent: comparing it with the wrong watermark is a classic slip)
        c = vt.hi_mine - 1 - 2 * rng.randrange(0, 2)
        if c > vt.hi_peer:
            return c
    return rng.choice([5, 7, 9, 4, 6, 101, 102])


def _block(gen, ep_stub, kind=None):
    """(fragment bytes, description)"""
    rng = gen.rng
    hg = gen.hg[ep_stub]
    r = rng.random()
    if r < 0.08:
        return bytes(rng.randrange(256) for _ in range(rng.randrange(0, 30))), 'garbage'
    kind = kind or rng.choice(['request', 'response', 'info', 'trailers', 'invalid'])
    if kind == 'request':
        hl = hg.request()
    elif kind == 'response':
        hl = hg.response()
    elif kind == 'info':
        hl = hg.response(info=True)
    elif kind == 'trailers':
        hl = hg.trailers()
    else:
        hl = hg.invalid()
    pairs = []
    for h in hl:
        n, v = h[0], h[1]
        if isinstance(n, str):
            n = n.encode('utf-8')
        if isinstance(v, str):
            v = v.encode('utf-8')
        if kind != 'invalid' or rng.random() < 0.5:
            n = n.strip().lower() if rng.random() < 0.9 else n
            v = v.strip() if rng.random() < 0.9 else v
        pairs.append((n, v))
    if rng.random() < 0.1:
        pairs.append((rng.choice([b'', b'X-Upper', b'connection', b' sp', b'te', b':late']), rng.choice([b'', b'x', b'\xff\xfe', b'gzip'])))
    if rng.random() < 0.08:
        pairs.append((rng.choice([b'1', b'_', b'-', b'2-1', b'x1']), b'v'))
    if rng.random() < 0.1:
        # bytes that are not UTF-8, in a field that is fine otherwise (an endpoint with header_encoding must cope)
        pairs.append(rng.choice([(b'x-bin', b'\xff\xfe'), (b'x-bin', b'caf\xe9'), (b'x-\xff', b'v'), (b'cookie', b'a=\x80')]))
    if kind == 'request' and rng.random() < gen.P.get('adv_hostauth', 0.06):
        pairs = [(n, v) for n, v in pairs if n not in (b':authority', b'host')]
        a_, h_ = rng.choice([(b'', b'evil.example'), (b'example.com', b''), (b'a', b'a')])
        pairs.insert(0, (b':authority', a_))
        pairs.append((b'host', h_))
    if rng.random() < 0.08:
        # cookie crumbs (RFC 7540 8.1.2.5), one of them - not the first, not the last - with whitespace around its value
        crumbs = [(b'cookie', b'a=1'), (b'cookie', rng.choice([b' b=2', b'b=2 ', b'\tb=2', b'  b=2  '])), (b'cookie', b'c=3')]
        if rng.random() < 0.5:
            crumbs.insert(1, (b'cookie', b'mid=0'))
        pairs.extend(crumbs)
    if rng.random() < 0.05:
        pairs.append((b'content-length', rng.choice([b'0', b'5', b'abc', b'-1', b'99999999999999999999', b'9' * 4301, b'0' * 5000,
                                                     b'+5', b'1_0', b' 5'])))
    enc = RefEncoder()
    # stateless: never use incremental indexing (rng=None => literal without indexing / static index)
    out = enc.encode(pairs)
    vt = gen.w.eps[gen.w.peer(ep_stub)].trk
    if getattr(vt, 'table_size_changed', False) and rng.random() < 0.8:
        # the victim has had a new HEADER_TABLE_SIZE acknowledged: a well-behaved encoder starts its next block with
        # a dynamic table size update (RFC 7541 6.3), here to the acknowledged maximum (capped at the default 4096)
        n = min(vt.mine.get(C.S_HEADER_TABLE_SIZE, 4096), 4096)
        if n < 31:
            upd = bytes([0x20 | n])
        else:
            upd = bytearray([0x20 | 31])
            n -= 31
            while n >= 128:
                upd.append((n % 128) | 0x80)
                n //= 128
            upd.append(n)
            upd = bytes(upd)
        out = upd + out
    return out, kind


def draw(gen):
    rng = gen.rng
    w = gen.w
    d = gen.adv_dir if getattr(gen, 'adv_dir', None) else rng.choice(['c2s', 's2c'])
    p = w.pipes[d]
    victim = w.dst_of(d)
    stub = w.src_of(d)
    ve = w.eps[victim]
    vt = ve.trk
    tap = ve.in_tap
    spans = frame_spans(w, d)
    if spans:
        pos = rng.choice([s for s, e in spans] + [spans[-1][1]])
    elif not p.backlog and not tap.buf and not tap.preface_left:
        pos = 0
    elif not tap.buf and len(p.backlog) == len(tap.preface_left):
        pos = len(p.backlog)
    else:
        return None
    victim_is_server = (victim == 's')
    frames = []
    tame = getattr(gen, 'iter', 0) < getattr(gen, 'adv_wild_from', 0)
    if (tame or rng.random() < gen.P.get('adv_plausible', 0.55)) and not vt.closed:
        frames = []
        for _ in range(4):
            frames = _plausible(gen, vt, victim_is_server, stub)
            if frames:
                break
        if frames:
            raw = b''.join(f.serialize() for f in frames)
            # next in line for the victim, so that it arrives in the state it was made for
            if spans:
                pos = spans[0][0]
            return {'ev': 'inject', 'dir': d, 'pos': pos, 'bytes': raw}
        if tame:
            return None
        frames = []
    r_special = rng.random()
    if r_special < gen.P.get('adv_flood', 0.03):
        # CONTINUATION flood: a header block cut into very many (also empty) fragments, in one go
        sid = vt.hi_peer + 2 if (vt.hi_peer and victim_is_server) else (1 if victim_is_server else _sid(gen, vt, victim_is_server))
        n = rng.choice([3, 9, 65, 66, 70, 300, 1200])
        frag, _ = _block(gen, stub, 'request' if victim_is_server else 'response')
        fr = [C.mk_headers(sid, frag[:1], rng.random() < 0.5, False)]
        rest = frag[1:]
        empty = rng.random() < 0.6
        for i in range(n):
            last = (i == n - 1)
            piece = b'' if (empty and not last) else rest[:1]
            if not (empty and not last):
                rest = rest[1:] if not last else b''
            if last:
                piece = (piece or b'') + rest
            fr.append(C.mk_continuation(sid, piece, last and rng.random() < 0.8))
        raw = b''.join(f.serialize() for f in fr)
        return {'ev': 'inject', 'dir': d, 'pos': pos, 'bytes': raw}
    if 0.85 <= r_special < 0.85 + gen.P.get('adv_repromise', 0.04) and not vt.closed and not victim_is_server:
        # a promise of an id that was promised before (now reset, finished, still reserved, or in use), on a parent
        # that is perfectly able to carry promises
        used = [x for x in vt.streams.values() if x.sid % 2 == 0]
        parents = [x for x in vt.streams.values() if x.mine and not x.pushed and x.state in ('open', 'hcL')]
        resetp = [x for x in vt.streams.values() if x.mine and not x.pushed and x.state == 'closed' and x.closed_by == 'rst_sent']
        if resetp and rng.random() < 0.5:
            parents = resetp        # ... or on one the victim has reset: there is nothing to refuse
        if used and parents:
            frag, _ = _block(gen, stub, 'request')
            fr = C.mk_push_promise(rng.choice(parents).sid, rng.choice(used).sid, frag, True, None)
            if spans:
                pos = spans[0][0]
            return {'ev': 'inject', 'dir': d, 'pos': pos, 'bytes': fr.serialize()}
    hot = [h for h in getattr(gen, 'hot_ids', {}).get(victim, []) if vt.get(h) is None]
    if 0.7 <= r_special < 0.7 + gen.P.get('adv_hot', 0.12) and not vt.closed and hot:
        # an id the victim's application named in a refused call and that (rightly) does not exist: well-formed frames
        # of every stream-opening and stream-using kind on it - they must meet the same fate as on any unused id
        sid = rng.choice(hot)
        k = rng.randrange(7)
        if k <= 1:
            frag, _ = _block(gen, stub, 'request')
            fr = [C.mk_headers(sid, frag, rng.random() < 0.5, True)]
        elif k == 2:
            frag, _ = _block(gen, stub, 'response')
            fr = [C.mk_headers(sid, frag, rng.random() < 0.5, True)]
        elif k == 3:
            frag, _ = _block(gen, stub, 'request')
            even = max([x.sid for x in vt.streams.values() if x.sid % 2 == 0] + [0]) + 2
            fr = [C.mk_push_promise(sid, even, frag, True, None)]
        elif k == 4:
            fr = [C.mk_data(sid, b'hot', rng.random() < 0.5, None)]
        elif k == 5:
            fr = [C.mk_window_update(sid, 100)]
        else:
            fr = [C.mk_rst(sid, 8)]
        raw = b''.join(f.serialize() for f in fr)
        if spans:
            pos = spans[0][0]
        return {'ev': 'inject', 'dir': d, 'pos': pos, 'bytes': raw}
    if 0.6 <= r_special < 0.6 + gen.P.get('adv_ack_big', 0.02) and not vt.closed and vt.sent_settings:
        # the acknowledgement of a SETTINGS frame that lowers MAX_FRAME_SIZE, and right behind it a frame that only
        # fits the old limit (also: one that fits the new one exactly)
        new_mf = dict(vt.sent_settings[0]).get(C.S_MAX_FRAME_SIZE)
        old_mf = vt.mine[C.S_MAX_FRAME_SIZE]
        if new_mf is not None and 16384 <= new_mf < old_mf <= 2 ** 20:
            n = rng.choice([new_mf, new_mf + 1, old_mf, (new_mf + old_mf) // 2])
            big = C.mk(rng.choice([0x20, 0xfe]), 0, 0, b'\x00' * n)
            raw = C.mk_settings((), ack=True).serialize() + big.serialize()
            if spans:
                pos = spans[0][0]
            return {'ev': 'inject', 'dir': d, 'pos': pos, 'bytes': raw}
    if 0.5 <= r_special < 0.5 + gen.P.get('adv_ping_flood', 0.01) and not vt.closed:
        n = rng.choice([2, 3, 10, 63, 64, 65, 66, 129, 400])
        raw = b''.join(C.mk_ping(i.to_bytes(4, 'big') + b'fld' + bytes([rng.randrange(256)]), rng.random() < 0.1).serialize()
                       for i in range(n))
        return {'ev': 'inject', 'dir': d, 'pos': pos, 'bytes': raw}
    if gen.P.get('adv_flood', 0.03) <= r_special < gen.P.get('adv_flood', 0.03) + gen.P.get('adv_overflow', 0.04) and not vt.closed:
        # window arithmetic at the limit: lift one stream's send window to exactly 2^31-1, then (sometimes) raise
        # INITIAL_WINDOW_SIZE by one - the history-dependent overflow clause
        live = [s for s in vt.streams.values() if s.state in ('open', 'hcR', 'hcL', 'rsvL', 'rsvR')]
        if live:
            st = rng.choice(live)
            fr = []
            room = MAXID - st.send_win
            if room >= 1:
                fr.append(C.mk_window_update(st.sid, room))
            if rng.random() < 0.7:
                fr.append(C.mk_settings([(C.S_INITIAL_WINDOW_SIZE, min(vt.peer[C.S_INITIAL_WINDOW_SIZE] + rng.choice([1, 1, 100]), MAXID))]))
            if fr:
                raw = b''.join(f.serialize() for f in fr)
                if spans:
                    pos = spans[0][0]
                return {'ev': 'inject', 'dir': d, 'pos': pos, 'bytes': raw}
    t = rng.choice([C.DATA, C.DATA, C.HEADERS, C.HEADERS, C.HEADERS, C.PRIORITY, C.RST_STREAM, C.SETTINGS,
                    C.PUSH_PROMISE, C.PING, C.GOAWAY, C.WINDOW_UPDATE, C.WINDOW_UPDATE, C.CONTINUATION,
                    C.ALTSVC, rng.choice([11, 12, 0x20, 0xff])])
    sid = _sid(gen, vt, victim_is_server)
    if t == C.CONTINUATION and rng.random() < 0.6:
        closed = [s.sid for s in vt.streams.values() if s.state == 'closed']
        if closed:
            sid = rng.choice(closed)      # naked CONTINUATION on a closed (maybe collected) stream
    if not victim_is_server:
        hcr = [s.sid for s in vt.streams.values() if s.state == 'hcR' and s.mine]
        if hcr and rng.random() < 0.12:
            t = C.PUSH_PROMISE            # a promise on a stream the (stub) server has already ended
            sid = rng.choice(hcr)
        elif t == C.PUSH_PROMISE and rng.random() < 0.4:
            hc = [s.sid for s in vt.streams.values() if s.state in ('hcL', 'open') and s.mine]
            if hc:
                sid = rng.choice(hc)
    if rng.random() < 0.03:
        t = C.GOAWAY
    if t == C.DATA:
        st = vt.get(sid)
        room = min(vt.conn_recv, st.recv_win if st else 65535, 16384)
        n = rng.choice([0, 1, 10, max(room, 0), max(room, 0) + 1, 100])
        n = max(0, min(n, 70000))
        pad = rng.choice([None, None, None, 0, 5, 255])
        frames.append(C.mk_data(sid, b'd' * n, rng.random() < 0.4, pad))
    elif t == C.HEADERS:
        st = vt.get(sid)
        kind = None
        if st is None:
            kind = 'request' if victim_is_server and rng.random() < 0.8 else None
            if not victim_is_server and rng.random() < 0.5:
                kind = rng.choice(['request', 'response'])      # well-formed blocks on ids the client never heard of
        elif st.mine and st.recv in ('none', 'info'):
            kind = rng.choice(['response', 'response', 'info', None])
        elif st.recv == 'final':
            kind = rng.choice(['trailers', 'trailers', None])
        frag, desc = _block(gen, stub, kind)
        es = rng.random() < (0.9 if desc == 'trailers' else 0.4)
        prio = None
        if rng.random() < 0.2:
            prio = (rng.choice([0, 1, 3, sid, MAXID]), rng.random() < 0.5, rng.randrange(256))
        pad = rng.choice([None, None, None, 0, 9])
        nsplit = rng.choice([0, 0, 0, 1, 2, 5, 70]) if len(frag) > 0 else 0
        if nsplit == 0:
            frames.append(C.mk_headers(sid, frag, es, True, prio, pad))
        else:
            parts = _split(rng, frag, nsplit + 1)
            frames.append(C.mk_headers(sid, parts[0], es, False, prio, pad))
            for i, part in enumerate(parts[1:]):
                last = (i == len(parts) - 2)
                csid = sid if rng.random() < 0.97 else sid + 2
                frames.append(C.mk_continuation(csid, part, last and rng.random() < 0.95))
            if rng.random() < 0.05:
                frames.insert(1, C.mk_ping(b'interlop', False))
    elif t == C.PRIORITY:
        dep = rng.choice([0, 1, 3, sid, sid + 2, MAXID])
        frames.append(C.mk_priority(sid, dep, rng.random() < 0.5, rng.randrange(256)))
    elif t == C.RST_STREAM:
        frames.append(C.mk_rst(sid, rng.choice([0, 1, 2, 5, 7, 8, 11, 255, 2 ** 32 - 1])))
    elif t == C.SETTINGS:
        if rng.random() < 0.25:
            frames.append(C.mk_settings((), ack=True))
        else:
            from .gen import SETTING_VALUES, BAD_SETTING_VALUES
            pairs = []
            for _ in range(rng.choice([0, 1, 1, 2, 4])):
                r = rng.random()
                if r < 0.12:
                    # history-dependent clause: a delta that may push existing stream windows above 2^31-1
                    pairs.append((C.S_INITIAL_WINDOW_SIZE, rng.choice([MAXID, MAXID - 1, MAXID - 65535, 2 ** 30])))
                elif r < 0.6:
                    k = rng.choice(list(SETTING_VALUES))
                    pairs.append((k, rng.choice(SETTING_VALUES[k])))
                elif r < 0.8:
                    k = rng.choice(list(BAD_SETTING_VALUES))
                    pairs.append((k, rng.choice(BAD_SETTING_VALUES[k])))
                else:
                    pairs.append((rng.choice([0, 7, 9, 10, 255, 256, 65535]), rng.choice([0, 1, 2 ** 31, 2 ** 32 - 1])))
            frames.append(C.mk_settings(pairs))
    elif t == C.PUSH_PROMISE:
        frag, desc = _block(gen, stub, rng.choice(['request', 'request', None]))
        promised = rng.choice([vt.hi_peer + 2 if vt.hi_peer % 2 == 0 and vt.hi_peer else 2, 2, 4, 3, sid, MAXID - 1, 0,
                               max((s.sid for s in vt.streams.values() if s.sid % 2 == 0), default=0) + 2])
        used = [s.sid for s in vt.streams.values() if s.sid % 2 == 0]
        if used and rng.random() < 0.35:
            promised = rng.choice(used)         # an id promised before (reserved, in use, reset or finished by now)
        frames.append(C.mk_push_promise(sid, promised, frag, True, rng.choice([None, None, 0, 3])))
    elif t == C.PING:
        frames.append(C.mk_ping(bytes(rng.randrange(256) for _ in range(8)), rng.random() < 0.3))
        if rng.random() < 0.3:
            frames.append(C.mk_ping(bytes(rng.randrange(256) for _ in range(8)), rng.random() < 0.3))
    elif t == C.GOAWAY:
        frames.append(C.mk_goaway(rng.choice([0, 1, vt.hi_mine, MAXID]), rng.choice([0, 1, 2, 11, 99]),
                                  rng.choice([b'', b'dbg'])))
    elif t == C.WINDOW_UPDATE:
        st = vt.get(sid)
        cur = (st.send_win if st is not None else vt.conn_send) if rng.random() < 0.7 else vt.conn_send
        inc = rng.choice([1, 100, 65535, MAXID - cur, MAXID - cur + 1, MAXID, 0])
        inc = max(0, min(inc, MAXID))
        frames.append(C.mk_window_update(rng.choice([sid, sid, 0]), inc))
    elif t == C.CONTINUATION:
        frames.append(C.mk_continuation(sid, b'\x82', rng.random() < 0.7))
    elif t == C.ALTSVC:
        frames.append(C.mk_altsvc(rng.choice([0, sid]), rng.choice([b'', b'https://o.example', b'x']),
                                  rng.choice([b'h2=":443"', b''])))
    else:
        frames.append(C.mk(t, rng.randrange(256), rng.choice([0, sid]), bytes(rng.randrange(256) for _ in range(rng.randrange(0, 20)))))
    raw = bytearray()
    for f in frames:
        b = bytearray(f.serialize())
        r = rng.random()
        if r < 0.04:
            b[4] = rng.randrange(256)                  # random flags
        elif r < 0.07 and len(b) > 9:
            b = b[:rng.randrange(9, len(b))]          # short payload with stale length
            b[0:3] = struct.pack('>I', len(b) - 9 + rng.choice([0, 0, 1]))[1:]
        elif r < 0.09:
            b[0:3] = struct.pack('>I', rng.choice([0, 1, 4, 5, 8, 2 ** 14 + 1, 2 ** 24 - 1]))[1:]
        raw += b
    return {'ev': 'inject', 'dir': d, 'pos': pos, 'bytes': bytes(raw)}


def _enc(pairs):
    return RefEncoder().encode([(n.encode() if isinstance(n, str) else n, v.encode() if isinstance(v, str) else v)
                                for n, v in pairs])


def _plausible(gen, vt, victim_is_server, stub):
    """A frame that is valid in the victim's current state (so that runs go deep
    and the rare invalid frame meets interesting states)."""
    rng = gen.rng
    hg = gen.hg[stub]
    live = [s for s in vt.streams.values() if s.state != 'closed']
    k = rng.randrange(10)
    mf = vt.mine[C.S_MAX_FRAME_SIZE]
    if k <= 2 and victim_is_server:
        sid = vt.hi_peer + 2 if vt.hi_peer else 1
        if sid > MAXID:
            return []
        hl = [(h[0].strip().lower() if isinstance(h[0], str) else h[0].strip().lower(), h[1].strip())
              for h in hg.request()]
        hl = [h for h in hl if h[0] not in ('connection', b'connection', 'keep-alive', b'keep-alive', 'proxy-connection',
                                             b'proxy-connection', 'upgrade', b'upgrade', 'transfer-encoding',
                                             b'transfer-encoding') and h[0] not in ('te', b'te') and h[0]]
        return [C.mk_headers(sid, _enc(hl), rng.random() < 0.4, True, None, None)]
    if k <= 2 and not victim_is_server:
        apr = gen.P.get('adv_push_response', 0)
        if apr and rng.random() < apr:
            # the responses on promised streams, one or all at once: each takes its stream out of 'reserved', so from
            # then on it counts against the victim's acknowledged MAX_CONCURRENT_STREAMS (an h2 server would stop itself)
            rsv = [s for s in live if s.state == 'rsvR']
            if rsv:
                rng.shuffle(rsv)
                if rng.random() < 0.5:
                    rsv = rsv[:1]
                return [C.mk_headers(st.sid, _enc([(':status', rng.choice(['200', '404']))]), rng.random() < 0.3, True, None, None)
                        for st in rsv]
        cands = [s for s in live if s.mine and not s.pushed and s.state in ('open', 'hcL') and s.recv in ('none', 'info')]
        if not cands:
            return []
        st = rng.choice(cands)
        hl = [(':status', rng.choice(['200', '404', '100']))]
        es = hl[0][1] != '100' and rng.random() < 0.4
        return [C.mk_headers(st.sid, _enc(hl), es, True, None, None)]
    if k == 3:
        cands = [s for s in live if s.state in ('open', 'hcL') and s.recv == 'final']
        if not cands:
            return []
        st = rng.choice(cands)
        room = min(vt.conn_recv, st.recv_win, mf)
        if room < 0:
            return []
        n = rng.choice([0, 1, min(room, 100), room])
        return [C.mk_data(st.sid, b'p' * n, rng.random() < 0.3, None)]
    if k == 4:
        return [C.mk_ping(bytes(rng.randrange(256) for _ in range(8)), False)]
    if k == 5:
        from .gen import SETTING_VALUES
        key = rng.choice([3, 4, 5, 6, 8])
        return [C.mk_settings([(key, rng.choice(SETTING_VALUES[key]))])]
    if k == 6 and live:
        st = rng.choice(live)
        room = MAXID - st.send_win
        if room < 1:
            return []
        return [C.mk_window_update(st.sid, min(room, rng.choice([1, 100, 65535])))]
    if k == 7 and live:
        return [C.mk_rst(rng.choice(live).sid, rng.choice([0, 8, 2]))]
    if k == 8:
        sid = rng.choice([s.sid for s in vt.streams.values()] + [vt.hi_peer + 2, 9, 11])
        dep = rng.choice([0, 1, 3, 5])
        if dep == sid or sid == 0:
            return []
        return [C.mk_priority(sid, dep, rng.random() < 0.5, rng.randrange(256))]
    if k == 9 and not victim_is_server:
        cands = [s for s in live if s.mine and not s.pushed and s.state in ('open', 'hcL')]
        if not cands or not vt.mine.get(C.S_ENABLE_PUSH, 1):
            return []
        st = rng.choice(cands)
        promised = max([x.sid for x in vt.streams.values() if x.sid % 2 == 0] + [vt.hi_peer, 0]) + 2
        promised += promised % 2
        hl = [(':method', 'GET'), (':scheme', 'https'), (':authority', 'a'), (':path', '/pushed')]
        return [C.mk_push_promise(st.sid, promised, _enc(hl), True, None)]
    return []


def long_frames(gen, vt, victim_is_server, stub):
    """Churn for the LONG profile: mostly frames that keep the connection alive
    while opening, closing and *referencing* streams in every state."""
    rng = gen.rng
    live = [s for s in vt.streams.values() if s.state != 'closed']
    r = rng.random()
    mf = vt.mine[C.S_MAX_FRAME_SIZE]
    lim = vt.mine.get(C.S_MAX_CONCURRENT_STREAMS) or 100
    if victim_is_server and (r < 0.28) and len(live) < min(lim, 60) - 1:
        sid = vt.hi_peer + 2 if vt.hi_peer else 1
        if sid <= MAXID:
            hl = [(':method', 'GET'), (':scheme', 'https'), (':authority', 'a'), (':path', '/%d' % (sid % 7))]
            if rng.random() < 0.1:
                hl.append(('x-pad', 'y' * rng.choice([10, 1000, 3000])))
            if rng.random() < 0.0005:
                hl.append(('x-over', 'y' * 70000))       # above any MAX_HEADER_LIST_SIZE used here
            frag = _enc(hl)
            es = rng.random() < 0.5
            if len(frag) > mf:
                parts = [frag[i:i + mf] for i in range(0, len(frag), mf)]
                fr = [C.mk_headers(sid, parts[0], es, False)]
                fr += [C.mk_continuation(sid, p, i == len(parts) - 2) for i, p in enumerate(parts[1:])]
                return fr
            if rng.random() < 0.1 and len(frag) > 4:
                parts = _split(rng, frag, rng.choice([2, 3, 5]))
                fr = [C.mk_headers(sid, parts[0], es, False)]
                fr += [C.mk_continuation(sid, p, i == len(parts) - 2) for i, p in enumerate(parts[1:])]
                return fr
            return [C.mk_headers(sid, frag, es, True)]
    if not victim_is_server and r < 0.30 and vt.mine.get(C.S_ENABLE_PUSH, 1):
        # push churn against a client: promise a stream (sometimes answer it), the resets below close them again
        parents = [s for s in live if s.mine and not s.pushed and s.state in ('open', 'hcL')]
        nxt = max([s.sid for s in vt.streams.values() if s.sid % 2 == 0] + [0]) + 2
        if parents and nxt <= MAXID and len(live) < 40:
            hl = [(':method', 'GET'), (':scheme', 'https'), (':authority', 'a'), (':path', '/p%d' % (nxt % 5))]
            fr = [C.mk_push_promise(rng.choice(parents).sid, nxt, _enc(hl), True, None)]
            if rng.random() < 0.3:
                fr.append(C.mk_headers(nxt, _enc([(':status', '200')]), rng.random() < 0.6, True))
            return fr
    if r < 0.5 and live:
        cands = live
        if not victim_is_server:
            cands = [s for s in live if s.pushed or len(live) > 3] or live
            keep = [s for s in cands if not (s.mine and not s.pushed)]      # (keep the one request that carries the pushes)
            cands = keep or cands
            if not keep and rng.random() < 0.98:
                cands = []
        if cands:
            st = rng.choice(cands)
            return [C.mk_rst(st.sid, rng.choice([0, 8]))]
    if r < 0.58 and live:
        cands = [s for s in live if s.state in ('open', 'hcL') and s.recv == 'final']
        if cands:
            st = rng.choice(cands)
            room = min(vt.conn_recv, st.recv_win, mf, 200)
            if room >= 0:
                return [C.mk_data(st.sid, b'z' * room, rng.random() < 0.5)]
    # frames that reference idle / closed / never-used ids and must allocate nothing
    pool = [s.sid for s in vt.streams.values() if s.state == 'closed'][-20:] + \
           [vt.hi_peer + 2, vt.hi_peer + 20, vt.hi_mine + 2, 2 ** 31 - 1, 2 ** 30 + 1, 7, 8]
    sid = rng.choice(pool) or 1
    k = rng.randrange(8)
    if k <= 2:
        dep = rng.choice([0, 1, 3, sid + 2])
        return [C.mk_priority(sid, dep if dep != sid else 0, rng.random() < 0.5, rng.randrange(256))]
    if k == 3:
        st = vt.get(sid)
        if st is not None and st.state == 'closed':
            return [C.mk_window_update(sid, rng.choice([1, 1000]))]
        return [C.mk_priority(sid, 0, False, 1)]
    if k == 4:
        st = vt.get(sid)
        if st is not None:      # RST_STREAM on a closed stream is ignored
            return [C.mk_rst(sid, 0)]
        return [C.mk_priority(sid, 0, True, 7)]
    if k == 5:
        return [C.mk(rng.choice([11, 12, 0x42, 0xfe]), rng.randrange(256), rng.choice([0, sid]), b'x' * rng.randrange(0, 30))]
    if k == 6 or (k == 5 and gen.P.get('long_pings')):
        return [C.mk_ping(bytes(rng.randrange(256) for _ in range(8)), rng.random() < 0.3)]
    if not vt.any_headers_recv and not vt.any_headers_sent:
        return [C.mk_ping(b'12345678', False)]
    return [C.mk_altsvc(rng.choice([0, sid]), b'', b'h2=":1"')]


def _split(rng, data, n):
    if n <= 1 or not data:
        return [data]
    cuts = sorted(rng.randrange(0, len(data) + 1) for _ in range(n - 1))
    parts = []
    prev = 0
    for c in cuts:
        parts.append(data[prev:c])
        prev = c
    parts.append(data[prev:])
    return parts
