"""C23 - priority information round-trips and never changes stream state."""
from .base import Monitor
from .. import codec as C
from ..expect import origin_of

MAXID = 2 ** 31 - 1


class C23(Monitor):
    prop = 'C23'
    name = 'priority'

    def start(self, w):
        w.observe_windows = True
        self.last_obs = {'c': None, 's': None}

    def on_step(self, w, s):
        e = w.eps[s.ep]
        client = e.client
        prev_obs = self.last_obs[s.ep]
        self.last_obs[s.ep] = s.obs
        if s.kind == 'call':
            a = s.args or {}
            if s.op == 'prioritize' or (s.op == 'send_headers' and any(a.get(k) is not None for k in ('pw', 'pd', 'pe'))):
                self.probe('priority_call')
                pw, pd, sid = a.get('pw'), a.get('pd'), a.get('sid')
                valid = client and (pw is None or 1 <= pw <= 256) and (pd is None or pd != sid) and \
                    isinstance(sid, int) and 1 <= sid <= MAXID
                if not valid:
                    self.nontrivial = True
                    if s.ok:
                        self.fail('bad-priority-accepted', '%s accepted invalid priority information' % s.op, s,
                                  client=client, weight=pw, depends_on=pd, sid=sid)
                    elif s.out:
                        self.fail('refused-priority-emitted', 'refused priority call emitted bytes', s)
                elif s.op == 'prioritize' and not s.ok and not s.snap['closed']:
                    if not (s.exc['where'] or '').endswith('process_input'):
                        self.fail('valid-priority-refused', 'prioritize with valid arguments raised %s' % s.exc['type'], s)
            return
        if s.snap['closed']:
            return
        # received PRIORITY frames (also as fields of HEADERS)
        prios = [(i, u) for i, u in enumerate(s.units) if u.type == C.PRIORITY and u.bad is None]
        if not prios:
            return
        self.probe('priority_frames')
        if not s.exact:
            return
        i, u = prios[0]
        dep, excl, wt = u.prio
        if dep == u.sid:
            self.nontrivial = True
            if s.ok:
                self.fail('self-dependency-accepted', 'PRIORITY with a self-dependency accepted', s)
            elif s.exc['code'] != C.PROTOCOL_ERROR:
                self.fail('self-dependency-code', 'self-dependency rejected with another code', s)
            return
        if not s.ok:
            self.fail('priority-rejected', 'a valid PRIORITY frame raised %s' % s.exc['type'], s, sid=u.sid)
            return
        want = {'t': 'PriorityUpdated', 'stream_id': u.sid, 'weight': wt + 1, 'depends_on': dep, 'exclusive': excl}
        got = s.events
        if len(got) != 1 or any(got[0].get(k) != v for k, v in want.items()):
            self.fail('priority-event', 'PRIORITY frame did not yield exactly one matching PriorityUpdated', s,
                      got=[g['t'] for g in got], want=want)
            return
        if s.out:
            self.fail('priority-answered', 'PRIORITY frame made the endpoint emit frames', s)
        pre = s.pre[i]
        if pre is None or pre.state == 'closed':
            self.nontrivial = True
        # windows of all live streams unchanged
        if prev_obs is not None and s.obs is not None:
            for sid, o in prev_obs.items():
                if sid in s.obs and s.obs[sid] != o:
                    self.fail('priority-changed-state', 'a PRIORITY frame changed flow-control state', s, sid=sid)
                    break
        # round trip of the sender's call arguments (reliable directions)
        if not s.tainted:
            of = origin_of(w, s.ep, u)
            if of is not None and of.src_step.kind == 'call' and of.src_step.op == 'prioritize':
                a = of.src_step.args
                exp = (a['pw'] if a.get('pw') is not None else 16, a['pd'] if a.get('pd') is not None else 0,
                       bool(a['pe']) if a.get('pe') is not None else False)
                ev = got[0]
                if (ev['weight'], ev['depends_on'], ev['exclusive']) != exp or ev['stream_id'] != a['sid']:
                    self.fail('priority-round-trip', 'PriorityUpdated differs from the prioritize() arguments', s,
                              got=(ev['weight'], ev['depends_on'], ev['exclusive']), want=exp)
