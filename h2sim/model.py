"""Wire-level reference tracker of one endpoint (RFC 7540 5.1 / 5.1.1 / 5.1.2 /
6.5 / 6.9 / 8.1), driven only by what the independent taps saw: the frames the
endpoint emitted, the frames delivered to it, and whether it answered a
delivered frame with an error.

The tracker *follows* the endpoint's accept/reject decisions for delivered
frames (so it never gets out of step with the wire), and exposes the
*pre-state* so that monitors can judge those decisions against the RFC.
"""
from . import codec as C

NONE, INFO, FINAL, TRAILERS = 'none', 'info', 'final', 'trailers'

DEFAULT_SETTINGS = {C.S_HEADER_TABLE_SIZE: 4096, C.S_ENABLE_PUSH: 1,
                    C.S_INITIAL_WINDOW_SIZE: 65535, C.S_MAX_FRAME_SIZE: 16384,
                    C.S_ENABLE_CONNECT_PROTOCOL: 0}


class St:
    __slots__ = ('sid', 'mine', 'pushed', 'state', 'closed_by', 'close_seq', 'sent', 'recv',
                 'req_method', 'recv_cl', 'recv_body', 'send_win', 'recv_win', 'authority',
                 'resp_status', 'parent', 'recv_cl_headers', 'upgraded', 'sent_method_seen',
                 'recv_events_ended', 'local_reset_seq', 'recv_hdr_after_final')

    def __init__(self, sid, mine, state, pushed=False):
        self.sid = sid
        self.mine = mine            # initiated (or promised) by the tracked endpoint
        self.pushed = pushed
        self.state = state          # rsvL rsvR open hcL hcR closed
        self.closed_by = None       # rst_sent rst_recv end
        self.close_seq = None
        self.sent = NONE            # message progress, this endpoint -> peer
        self.recv = NONE
        self.req_method = None
        self.recv_cl = None
        self.recv_body = 0
        self.send_win = 0
        self.recv_win = 0
        self.authority = None
        self.resp_status = None
        self.parent = None
        self.upgraded = False
        self.local_reset_seq = None

    @property
    def counts(self):
        return self.state in ('open', 'hcL', 'hcR')

    def copy(self):
        c = St(self.sid, self.mine, self.state, self.pushed)
        for k in ('closed_by', 'close_seq', 'sent', 'recv', 'req_method', 'recv_cl', 'recv_body',
                  'send_win', 'recv_win', 'authority', 'resp_status', 'parent', 'upgraded',
                  'local_reset_seq'):
            setattr(c, k, getattr(self, k))
        return c

    def __repr__(self):
        return 'St(%d %s %s%s sent=%s recv=%s sw=%d rw=%d)' % (
            self.sid, 'mine' if self.mine else 'peer', self.state,
            '/' + self.closed_by if self.closed_by else '', self.sent, self.recv,
            self.send_win, self.recv_win)


def hdr_get(headers, name):
    for h in headers:
        if h[0] == name:
            return h[1]
    return None


def is_info(headers):
    """1xx by RFC: the :status pseudo-header value starts with '1'."""
    st = hdr_get(headers, b':status')
    return st is not None and st[:1] == b'1'


class Tracker:
    def __init__(self, client):
        self.client = client
        self.streams = {}
        self.hi_mine = 0            # highest id this endpoint opened or promised
        self.hi_peer = 0            # highest id the peer opened or promised (as accepted)
        self.close_counter = 0
        # settings
        self.sent_settings = []     # outstanding own SETTINGS frames (list of pair-lists)
        self.sent_settings_total = 0
        self.acks_received = 0
        self.mine = dict(DEFAULT_SETTINGS)      # own settings in force (acknowledged), RFC defaults first
        self.mine[C.S_ENABLE_PUSH] = 1
        self.peer = dict(DEFAULT_SETTINGS)      # peer settings as received
        self.peer_settings_frames = 0
        self.acks_sent = 0
        # windows
        self.conn_send = 65535
        self.conn_recv = 65535
        # connection
        self.goaway_sent = 0
        self.goaway_recv = 0
        self.dead = False           # receive path raised: connection error
        self.closed = False         # closed by any route
        self.closed_how = None
        self.preface_ok = True
        self.open_block_in = None
        self.last_ack_changes = None
        self.upgrade = False
        self.any_headers_sent = False
        self.any_headers_recv = False
        # histories that monitors want
        self.pings_in = []
        self.local_resets = {}      # sid -> seq at which this endpoint sent RST_STREAM
        self.refused_promises = {}  # promised sid -> parent
        self.initial_settings = None
        self.table_size_changed = False     # this endpoint changed its HEADER_TABLE_SIZE after the handshake
        self.hi_peer_maybe = set()  # highest id of a delivered HEADERS that tried to open a peer stream

    # -- helpers -----------------------------------------------------------
    def is_mine(self, sid):
        return (sid % 2 == 1) == self.client

    def get(self, sid):
        return self.streams.get(sid)

    def state_of(self, sid):
        """idle / idle-used (implicitly closed or never opened below watermark) / state"""
        st = self.streams.get(sid)
        if st is not None:
            return st.state
        if sid == 0:
            return 'conn'
        hi = self.hi_mine if self.is_mine(sid) else self.hi_peer
        return 'idle' if sid > hi else 'skipped'

    def count_open(self, mine):
        return sum(1 for s in self.streams.values() if s.mine == mine and s.counts)

    def closed_after(self, st):
        """number of streams closed after st closed (for the memory bound)"""
        return self.close_counter - st.close_seq

    def _close(self, st, how):
        if st.state != 'closed':
            st.state = 'closed'
            st.closed_by = how
            self.close_counter += 1
            st.close_seq = self.close_counter

    def _new(self, sid, mine, state, pushed=False):
        st = St(sid, mine, state, pushed)
        st.send_win = self.peer[C.S_INITIAL_WINDOW_SIZE]
        st.recv_win = self.mine[C.S_INITIAL_WINDOW_SIZE]
        self.streams[sid] = st
        if mine:
            self.hi_mine = max(self.hi_mine, sid)
        else:
            self.hi_peer = max(self.hi_peer, sid)
        return st

    def setup_upgrade(self, client_settings_pairs=None):
        """h2c upgrade: stream 1 half-closed, client's settings known to server."""
        self.upgrade = True
        if self.client:
            st = self._new(1, True, 'hcL')
            st.sent = FINAL
        else:
            if client_settings_pairs:
                for k, v in client_settings_pairs:
                    self._apply_peer_setting(k, v)
            st = self._new(1, False, 'hcR')
            st.recv = FINAL
        st.upgraded = True
        st.req_method = b'GET'
        self.any_headers_sent = self.any_headers_recv = True
        return st

    # -- outbound ----------------------------------------------------------
    def on_out(self, frames):
        for f in frames:
            self._out(f)

    def _out(self, f):
        t = f.type
        if t == C.GOAWAY:
            self.goaway_sent += 1
            if not self.closed:
                self.closed = True
                self.closed_how = 'goaway_sent'
            return
        if t == C.SETTINGS:
            if f.ack:
                self.acks_sent += 1
            else:
                pairs = list(f.settings or [])
                if self.sent_settings_total == 0:
                    # the initial SETTINGS frame: its (defensive) values are in
                    # force locally from the start; its ACK changes nothing
                    for k, v in pairs:
                        self._apply_my_setting(k, v)
                    self.initial_settings = pairs
                    pairs = []
                elif any(k == C.S_HEADER_TABLE_SIZE for k, _ in pairs):
                    self.table_size_changed = True
                self.sent_settings.append(pairs)
                self.sent_settings_total += 1
            return
        if t == C.WINDOW_UPDATE:
            if f.sid == 0:
                self.conn_recv += f.increment or 0
            else:
                st = self.streams.get(f.sid)
                if st is not None:
                    st.recv_win += f.increment or 0
            return
        if t == C.HEADERS and f.block_frames is not None:
            self.any_headers_sent = True
            st = self.streams.get(f.sid)
            hs = f.headers or []
            if st is None:
                st = self._new(f.sid, self.is_mine(f.sid), 'open')
                st.sent = FINAL
                st.req_method = hdr_get(hs, b':method')
                st.authority = hdr_get(hs, b':authority')
            elif st.state == 'rsvL':
                st.state = 'hcR'
                st.sent = FINAL if not is_info(hs) else INFO
                st.resp_status = hdr_get(hs, b':status')
            else:
                if st.mine and not st.pushed:
                    # client (or opener): second block is trailers
                    st.sent = TRAILERS if st.sent in (FINAL, TRAILERS) else FINAL
                else:
                    if st.sent in (NONE, INFO):
                        if is_info(hs):
                            st.sent = INFO
                        else:
                            st.sent = FINAL
                            st.resp_status = hdr_get(hs, b':status')
                    else:
                        st.sent = TRAILERS
            if f.end_stream:
                self._out_es(st)
            return
        if t == C.PUSH_PROMISE and f.block_frames is not None:
            st = self._new(f.promised, True, 'rsvL', pushed=True)
            st.recv = FINAL
            st.parent = f.sid
            hs = f.headers or []
            st.req_method = hdr_get(hs, b':method')
            st.authority = hdr_get(hs, b':authority')
            return
        if t == C.DATA:
            self.conn_send -= f.fc_len
            st = self.streams.get(f.sid)
            if st is not None:
                st.send_win -= f.fc_len
                if f.end_stream:
                    self._out_es(st)
            return
        if t == C.RST_STREAM:
            st = self.streams.get(f.sid)
            if st is not None and st.state != 'closed':
                self._close(st, 'rst_sent')
                self.local_resets[f.sid] = self.close_counter
            elif st is None:
                # refusal of a promised stream / reset of an unknown id
                self.refused_promises.setdefault(f.sid, None)
            return

    def _out_es(self, st):
        if st.state == 'open':
            st.state = 'hcL'
        elif st.state == 'hcR':
            self._close(st, 'end')

    # -- inbound -----------------------------------------------------------
    def on_in(self, f, rejected, conn_error):
        """Account a delivered frame. `rejected`: the endpoint answered this
        frame with a stream error or ignored it as invalid; `conn_error`: the
        receive call raised."""
        t = f.type
        if t == C.HEADERS and f.sid and not self.is_mine(f.sid) and f.sid > self.hi_peer:
            # the peer did try to open this stream, whatever became of the frame
            self.hi_peer_maybe.add(f.sid)
        if conn_error:
            return
        if t == C.SETTINGS:
            if f.bad:
                return
            if f.ack:
                self.acks_received += 1
                if self.sent_settings:
                    pairs = self.sent_settings.pop(0)
                    changes = {}
                    for k, v in pairs:
                        old = changes[k][0] if k in changes else self.mine.get(k)
                        changes[k] = (old, v)
                        self._apply_my_setting(k, v)
                    self.last_ack_changes = changes
                else:
                    self.last_ack_changes = {}
            else:
                self.peer_settings_frames += 1
                for k, v in f.settings or []:
                    self._apply_peer_setting(k, v)
            return
        if t == C.GOAWAY:
            if not f.bad:
                self.goaway_recv += 1
                if not self.closed:
                    self.closed = True
                    self.closed_how = 'goaway_recv'
            return
        if t == C.WINDOW_UPDATE:
            if f.bad:
                return
            if f.sid == 0:
                self.conn_send += f.increment
            else:
                st = self.streams.get(f.sid)
                if st is not None and st.state != 'closed' and not rejected:
                    st.send_win += f.increment
            return
        if t == C.DATA:
            if f.bad:
                return
            self.conn_recv -= f.fc_len
            st = self.streams.get(f.sid)
            if st is not None and not rejected and st.state in ('open', 'hcL'):
                st.recv_win -= f.fc_len
                st.recv_body += len(f.data or b'')
                if f.end_stream:
                    self._in_es(st)
            return
        if t == C.HEADERS and f.block_frames is not None:
            if rejected or f.bad or f.hpack_error:
                return
            self.any_headers_recv = True
            hs = f.headers or []
            st = self.streams.get(f.sid)
            if st is None:
                st = self._new(f.sid, self.is_mine(f.sid), 'open')
                st.recv = FINAL
                st.req_method = hdr_get(hs, b':method')
                st.authority = hdr_get(hs, b':authority')
                st.recv_cl = hdr_get(hs, b'content-length')
            elif st.state == 'rsvR':
                if is_info(hs):
                    st.recv = INFO
                else:
                    st.state = 'hcL'
                    st.recv = FINAL
                    st.resp_status = hdr_get(hs, b':status')
                    st.recv_cl = hdr_get(hs, b'content-length')
            elif st.state in ('open', 'hcL'):
                if not st.mine or st.pushed:
                    # we are the server side of this stream: a second block is trailers
                    st.recv = TRAILERS
                elif st.recv in (NONE, INFO):
                    if is_info(hs):
                        st.recv = INFO
                    else:
                        st.recv = FINAL
                        st.resp_status = hdr_get(hs, b':status')
                        st.recv_cl = hdr_get(hs, b'content-length')
                else:
                    st.recv = TRAILERS
            else:
                return
            if f.end_stream:
                self._in_es(st)
            return
        if t == C.PUSH_PROMISE and f.block_frames is not None:
            if f.bad or f.hpack_error:
                return
            if rejected:
                # the promised stream was refused (RST_STREAM): the id is used up
                # and the stream counts as one this endpoint reset
                p = f.promised
                if p and not self.is_mine(p) and p > self.hi_peer and p not in self.streams:
                    st = self._new(p, False, 'rsvR', pushed=True)
                    st.parent = f.sid
                    self._close(st, 'rst_sent')
                    self.local_resets[p] = self.close_counter
                    self.refused_promises[p] = f.sid
                return
            hs = f.headers or []
            st = self._new(f.promised, False, 'rsvR', pushed=True)
            st.sent = FINAL
            st.parent = f.sid
            st.req_method = hdr_get(hs, b':method')
            st.authority = hdr_get(hs, b':authority')
            return
        if t == C.RST_STREAM:
            if f.bad:
                return
            st = self.streams.get(f.sid)
            if st is not None and st.state != 'closed':
                self._close(st, 'rst_recv')
            return

    def _in_es(self, st):
        if st.state == 'open':
            st.state = 'hcR'
        elif st.state == 'hcL':
            self._close(st, 'end')

    # -- settings ------------------------------------------------------------
    def _apply_my_setting(self, k, v):
        if k == C.S_INITIAL_WINDOW_SIZE:
            delta = v - self.mine[k]
            for st in self.streams.values():
                if st.state != 'closed':
                    st.recv_win += delta
        self.mine[k] = v

    def _apply_peer_setting(self, k, v):
        if k == C.S_INITIAL_WINDOW_SIZE:
            delta = v - self.peer[k]
            for st in self.streams.values():
                if st.state != 'closed':
                    st.send_win += delta
        self.peer[k] = v

    # convenience ------------------------------------------------------------
    @property
    def peer_max_frame(self):
        return self.peer[C.S_MAX_FRAME_SIZE]

    @property
    def my_max_frame(self):
        return self.mine[C.S_MAX_FRAME_SIZE]

    def peer_max_concurrent(self):
        return self.peer.get(C.S_MAX_CONCURRENT_STREAMS)

    def my_max_concurrent(self):
        return self.mine.get(C.S_MAX_CONCURRENT_STREAMS)
