"""C26 - each received PING is answered exactly once with the same payload."""
from .base import Monitor
from .. import codec as C
from .. import twins


class C26(Monitor):
    prop = 'C26'
    name = 'ping'

    def on_step(self, w, s):
        if s.kind == 'call':
            if s.op != 'ping':
                return
            d = s.args['data']
            valid = isinstance(d, bytes) and len(d) == 8
            pings = [f for f in s.out_frames if f.type == C.PING]
            if s.ok:
                if not valid:
                    self.fail('bad-payload-accepted', 'ping() accepted a payload that is not 8 bytes', s)
                if len(s.out_frames) != 1 or len(pings) != 1 or pings[0].ack or pings[0].opaque != d:
                    self.fail('ping-emission', 'ping() did not emit exactly one PING with the payload', s)
            else:
                if s.out:
                    self.fail('ping-emission', 'raising ping() emitted bytes', s)
                if valid and not s.snap['closed'] and not s.exc['proto']:
                    self.fail('valid-ping-refused', 'ping() with an 8-byte payload raised %s' % s.exc['type'], s)
            return
        if not s.ok:
            # a chunk of nothing but well-formed PING frames on a live connection cannot be in error
            if (s.units and not s.snap['closed'] and not s.quirk and s.trailing == 0 and not w.eps[s.ep].in_tap.preface_bad
                    and len(s.in_frames) == len(s.units)
                    and all(f.type == C.PING and f.bad is None and f.length <= 16384 for f in s.units)):
                self.probe('ping_only_chunk_raised')
                self.fail('ping-rejected', 'a chunk of %s well-formed PING frames raised %s' % (
                    'more than 64' if len(s.units) > 64 else 'some', s.exc['type']), s, frames=len(s.units))
            return
        if len([f for f in s.units if f.type == C.PING]) > 64:
            self.probe('ping_flood_chunk')
        want_ev = []
        want_ack = []
        for f in s.units:
            if f.type == C.PING and f.bad is None:
                if f.ack:
                    want_ev.append(('PingAckReceived', f.opaque))
                else:
                    want_ev.append(('PingReceived', f.opaque))
                    want_ack.append(f.opaque)
        if any(f.type == C.GOAWAY and f.bad is None for f in s.units):
            # a GOAWAY received in the same call discards output not yet taken (C19)
            want_ack = []
        got_ev = [(e['t'], e['ping_data']) for e in s.events if e['t'] in ('PingReceived', 'PingAckReceived')]
        got_ack = [f.opaque for f in s.out_frames if f.type == C.PING]
        if want_ev:
            self.probe('pings')
            if len(want_ev) > 1 or s.tainted:
                self.nontrivial = True
        if any(f.type == C.PING and not f.ack for f in s.out_frames):
            self.fail('unsolicited-ping', 'receive_data emitted a PING without ACK', s)
        if got_ev != want_ev:
            self.fail('ping-events', 'ping events differ from delivered PING frames', s, got=got_ev, want=want_ev)
        if got_ack != want_ack:
            self.fail('ping-acks', 'PING ACK frames differ from delivered PINGs', s, got=got_ack, want=want_ack)

    def finish(self, w):
        if self.violations:
            return
        # 'appends': acknowledgements go behind whatever is still waiting to be read.  Lazy-read twin: the same
        # log with output taken in arbitrary partial reads must give the same byte stream (a received GOAWAY
        # discards pending output, so only logs without one are compared)
        for ep in ('c', 's'):
            e = w.eps[ep]
            if not any(f.type == C.PING for s in e.log if s.kind == 'recv' for f in s.in_frames):
                continue
            if any(f.type == C.GOAWAY for s in e.log if s.kind == 'recv' for f in s.in_frames) or \
                    any(s.kind == 'call' and s.op == 'clear_outbound_data_buffer' for s in e.log):
                continue
            lazy, bad = twins.run_lazy(w, ep, twins.twin_rng(w, ep, 'lazy-ping'))
            whole = b''.join(s.out for s in e.log)
            self.probe('lazy_read_twin')
            if bad or lazy != whole:
                self.fail('ack-not-appended', 'with output read lazily the byte stream (PING ACK placement) differs', None,
                          endpoint=ep, same_length=len(lazy) == len(whole),
                          first_difference=next((i for i, (x, y) in enumerate(zip(lazy, whole)) if x != y), min(len(lazy), len(whole))))
                return
