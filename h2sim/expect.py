"""End-to-end expectations: what the receiver must report for a delivered frame
that a *successful call* of the peer produced (mode R only: the byte streams
of sender and receiver are identical, so frames are linked by stream offset).

Expectations come from the sender's call arguments (not from the decoded
wire), the documented normalisation, and the receiver's own wire-tracked
pre-state of the stream.
"""
from . import codec as C
from .hdrnorm import wire_expected, event_expected
from .model import NONE, INFO, FINAL, TRAILERS

SKIP = object()      # no judgement possible for this unit


def origin_of(w, ep, u):
    """The frame object as emitted by the peer (or None)."""
    d = w.in_dir(ep)
    of = w.sent_frames[d].get(u.offset)
    if of is None or of.type != u.type or of.length != u.length:
        return None
    return of


def headers_for(w, x_ep, y_ep, call_headers):
    wire = wire_expected(call_headers, w.cfg[x_ep])
    return event_expected(wire, w.cfg[y_ep])


def _hdr_event_type(pre, y_client, hs_wire):
    """Which header event the receiver owes for a block on a stream whose
    pre-state at the receiver is `pre`."""
    info = False
    for n, v in hs_wire:
        if n == b':status':
            info = v[:1] == b'1'
            break
    if pre is None:
        return 'RequestReceived' if not y_client else None
    if pre.state == 'rsvR':
        return 'InformationalResponseReceived' if info else 'ResponseReceived'
    if pre.mine and not pre.pushed:
        # the receiver opened this stream: it receives a response
        if pre.recv in (NONE, INFO):
            return 'InformationalResponseReceived' if info else 'ResponseReceived'
        return 'TrailersReceived'
    if pre.pushed and not pre.mine:
        # pushed stream at the client
        if pre.recv in (NONE, INFO):
            return 'InformationalResponseReceived' if info else 'ResponseReceived'
        return 'TrailersReceived'
    return 'TrailersReceived'


def expect_unit(w, s, i, u, settings_view):
    """Expected events (list of dicts with the fields that must match) for
    dispatch unit u of receive step s, or SKIP."""
    y = s.ep
    x = w.peer(y)
    y_client = (y == 'c')
    pre = s.pre[i]
    of = origin_of(w, y, u)
    if of is None:
        return SKIP
    xs = of.src_step
    call = xs if xs.kind == 'call' and xs.ok else None
    a = (call.args or {}) if call is not None else {}
    t = u.type
    reset_by_me = pre is not None and pre.state == 'closed' and pre.closed_by == 'rst_sent'
    if t == C.SETTINGS:
        if u.ack:
            return [{'t': 'SettingsAcknowledged'}]
        ch = {}
        for k, v in u.settings:
            # the old value is only judged for settings this peer has sent before
            old = settings_view.get(k, '?')
            ch[k] = (old, v)
            settings_view[k] = v
        return [{'t': 'RemoteSettingsChanged', 'changed_settings': ch}]
    if t == C.PING:
        return [{'t': 'PingAckReceived' if u.ack else 'PingReceived', 'ping_data': u.opaque}]
    if t == C.GOAWAY:
        return [{'t': 'ConnectionTerminated', 'error_code': u.error_code, 'last_stream_id': u.last_sid,
                 'additional_data': u.debug if u.debug else None}]
    if t == C.PRIORITY:
        if call is None or call.op != 'prioritize':
            return SKIP
        return [{'t': 'PriorityUpdated', 'stream_id': a['sid'],
                 'weight': a['pw'] if a.get('pw') is not None else 16,
                 'depends_on': a['pd'] if a.get('pd') is not None else 0,
                 'exclusive': bool(a['pe']) if a.get('pe') is not None else False}]
    if t == C.WINDOW_UPDATE:
        if u.sid == 0:
            return [{'t': 'WindowUpdated', 'stream_id': 0, 'delta': u.increment}]
        if pre is None or pre.state == 'closed':
            return []
        return [{'t': 'WindowUpdated', 'stream_id': u.sid, 'delta': u.increment}]
    if t == C.RST_STREAM:
        if pre is None or pre.state == 'closed':
            return []
        return [{'t': 'StreamReset', 'stream_id': u.sid, 'error_code': u.error_code, 'remote_reset': True}]
    if t == C.ALTSVC:
        if not y_client:
            return []
        if u.sid == 0:
            if not u.origin:
                return []
            return [{'t': 'AlternativeServiceAvailable', 'origin': u.origin, 'field_value': u.field}]
        if u.origin:
            return []
        if pre is None or pre.state == 'closed' or not (pre.mine or pre.pushed):
            return []
        if pre.recv in (FINAL, TRAILERS):
            return []
        return [{'t': 'AlternativeServiceAvailable', 'origin': pre.authority, 'field_value': u.field}]
    if t == C.DATA:
        if reset_by_me:
            return []
        if pre is None or pre.state not in ('open', 'hcL'):
            return SKIP
        evs = [{'t': 'DataReceived', 'stream_id': u.sid, 'data': u.data, 'flow_controlled_length': u.fc_len,
                'stream_ended': 1 if u.end_stream else None}]
        if call is not None and call.op == 'send_data':
            evs[0]['data'] = bytes(a['data'])
        if u.end_stream:
            evs.append({'t': 'StreamEnded', 'stream_id': u.sid})
        return evs
    if t == C.HEADERS:
        if reset_by_me:
            return []
        if call is None or call.op != 'send_headers':
            return SKIP
        if pre is not None and pre.state not in ('open', 'hcL', 'rsvR'):
            return SKIP
        wire = wire_expected(a['headers'], w.cfg[x])
        et = _hdr_event_type(pre, y_client, wire)
        if et is None:
            return SKIP
        ev = {'t': et, 'stream_id': u.sid, 'headers': event_expected(wire, w.cfg[y])}
        evs = [ev]
        if et != 'InformationalResponseReceived':
            ev['stream_ended'] = None
        ev['priority_updated'] = None
        if u.end_stream:
            ev['stream_ended'] = len(evs)
            evs.append({'t': 'StreamEnded', 'stream_id': u.sid})
        if any(a.get(k) is not None for k in ('pw', 'pd', 'pe')):
            ev['priority_updated'] = len(evs)
            evs.append({'t': 'PriorityUpdated', 'stream_id': u.sid,
                        'weight': a['pw'] if a.get('pw') is not None else 16,
                        'depends_on': a['pd'] if a.get('pd') is not None else 0,
                        'exclusive': bool(a['pe']) if a.get('pe') is not None else False})
        return evs
    if t == C.PUSH_PROMISE:
        if reset_by_me:
            return []
        if call is None or call.op != 'push_stream':
            return SKIP
        if pre is None or pre.state not in ('open', 'hcL'):
            return SKIP
        wire = wire_expected(a['headers'], w.cfg[x])
        return [{'t': 'PushedStreamReceived', 'pushed_stream_id': a['promised'], 'parent_stream_id': a['sid'],
                 'headers': event_expected(wire, w.cfg[y])}]
    if t > C.ALTSVC:
        return [{'t': 'UnknownFrameReceived'}]
    return SKIP


def match_events(expected, actual, base=0):
    """Compare expected partial dicts with actual event summaries; related-event
    indices in `expected` are relative to the unit (offset by base)."""
    if len(expected) != len(actual):
        return 'count %d != %d' % (len(actual), len(expected))
    for j, (e, a) in enumerate(zip(expected, actual)):
        for k, v in e.items():
            av = a.get(k)
            if k in ('stream_ended', 'priority_updated'):
                if v is None:
                    if av is not None:
                        return '%s.%s should be None' % (e['t'], k)
                elif av != v + base:
                    return '%s.%s link' % (e['t'], k)
            elif k == 'headers':
                got = [(h[0], h[1]) for h in (av or [])]
                want = [(h[0], h[1]) for h in v]
                if got != want:
                    return '%s.headers differ' % e['t']
            elif k == 'changed_settings':
                got = {int(kk): tuple(vv) for kk, vv in (av or {}).items()}
                if set(got) != set(int(kk) for kk in v):
                    return '%s.changed_settings keys differ' % e['t']
                for kk, (o, n) in v.items():
                    go, gn = got[int(kk)]
                    if gn != n or (o != '?' and go != o):
                        return '%s.changed_settings values differ' % e['t']
            elif av != v:
                return '%s.%s differs' % (e['t'], k)
    return None
