"""C14 - outbound header blocks are normalised and RFC 7540 8.1.2 conformant."""
from .base import Monitor
from .. import codec as C
from ..hdrnorm import conformant, sensitive, CONNECTION_SPECIFIC


class C14(Monitor):
    prop = 'C14'
    name = 'outbound-headers'

    def on_step(self, w, s):
        if s.kind != 'call' or s.op not in ('send_headers', 'push_stream') or not s.ok:
            return
        cfg = w.cfg[s.ep]
        norm = cfg.get('normalize_outbound', True)
        val = cfg.get('validate_outbound', True)
        blocks = [f for f in s.out_frames if f.type in (C.HEADERS, C.PUSH_PROMISE) and f.block_frames is not None]
        if len(blocks) != 1 or blocks[0].headers is None:
            return
        f = blocks[0]
        wire = [(n, v) for n, v, _ in f.headers]
        # block kind from the sender's pre-state
        if s.op == 'push_stream':
            kind = 'push'
        else:
            pre = s.pre.get(s.args['sid'])
            if pre is None:
                kind = 'request'
            elif pre.mine and not pre.pushed:
                kind = 'trailers'
            elif pre.sent in ('none', 'info'):
                kind = 'response'
            else:
                kind = 'trailers'
        raw = s.args['headers']
        needed_repair = any((h[0] != h[0].lower()) or (h[0] != h[0].strip()) or (h[1] != h[1].strip()) or
                            (h[0].strip().lower() in ('connection', b'connection', 'keep-alive', b'keep-alive',
                                                       'proxy-connection', b'proxy-connection', 'upgrade', b'upgrade',
                                                       'transfer-encoding', b'transfer-encoding')) for h in raw)
        if needed_repair:
            self.probe('needed_repair')
            self.nontrivial = True
        if norm:
            for n, v, mode in f.headers:
                if n != n.lower() or n != n.strip() or v != v.strip():
                    self.fail('not-normalised', 'emitted field is not lower-case / trimmed', s, field=(n, v))
                    return
                if n in CONNECTION_SPECIFIC:
                    self.fail('connection-specific', 'connection-specific field emitted', s, field=n)
                    return
                if sensitive(n, v):
                    self.probe('sensitive_field')
                    self.nontrivial = True
                    if mode not in ('never', 'indexed'):
                        self.fail('sensitive-indexable', 'sensitive field emitted with an indexable representation', s,
                                  field=n, mode=mode)
                        return
                    if mode == 'indexed' and (n, v) not in ((b'authorization', b''), (b'proxy-authorization', b''),
                                                              (b'cookie', b'')):
                        self.fail('sensitive-indexed', 'sensitive field emitted as a dynamic-table reference', s, field=n)
                        return
        if val and norm:
            why = conformant(wire, 'request' if kind == 'push' else kind)
            if why is not None:
                self.fail('non-conformant-emitted', '%s block emitted although %s' % (kind, why), s, block=kind)
        elif val:
            # validation without normalisation promises the structural rules only
            why = conformant(wire, 'request' if kind == 'push' else kind)
            if why is not None and why not in ('uppercase name', 'name whitespace', 'value whitespace'):
                self.fail('non-conformant-emitted', '%s block emitted although %s' % (kind, why), s, block=kind)
