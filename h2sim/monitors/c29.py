"""C29 - API misuse is reported only through documented exceptions and emits nothing."""
from .base import Monitor

STREAM_OPS = ('send_data', 'end_stream', 'reset_stream', 'increment_flow_control_window', 'push_stream',
              'advertise_alternative_service', 'local_flow_control_window', 'remote_flow_control_window')
MAXID = 2 ** 31 - 1


class C29(Monitor):
    prop = 'C29'
    name = 'misuse'

    def start(self, w):
        self.gc_after = {'c': -1, 's': -1}     # close_counter value at the last garbage-collecting query

    def on_step(self, w, s):
        if s.kind != 'call':
            return
        e = w.eps[s.ep]
        trk = e.trk
        if s.ok:
            if s.op in ('open_outbound_streams', 'open_inbound_streams'):
                self.gc_after[s.ep] = trk.close_counter
            a = s.args or {}
            sid = a.get('sid')
            if (s.op == 'acknowledge_received_data' and isinstance(sid, int) and 0 < sid <= MAXID and not s.snap['closed']
                    and s.pre.get(sid) is None and isinstance(a.get('n'), int) and a['n'] >= 0):
                hi = s.snap['hi_mine'] if trk.is_mine(sid) else s.snap['hi_peer']
                if sid > hi:
                    # only closed-and-forgotten streams are ignored; an id that was never used is not one of them
                    self.probe('never_used_id')
                    self.fail('never-used-stream', 'acknowledge_received_data on a never-used id returned normally', s)
            return
        self.probe('raising_call')
        self.nontrivial = True
        x = s.exc
        if s.out:
            self.fail('raising-call-emitted', '%s raised %s but added bytes to the output' % (s.op, x['type']), s,
                      where=x['where'])
        if not x['h2']:
            ok = False
            a = s.args or {}
            if x['type'] in ('ValueError', 'TypeError'):
                if s.op == 'send_data' and a.get('pad') is not None:
                    ok = True
                elif s.op == 'increment_flow_control_window' and not (isinstance(a.get('inc'), int) and 1 <= a['inc'] <= MAXID):
                    ok = True
                elif s.op == 'ping' and not (isinstance(a.get('data'), bytes) and len(a['data']) == 8):
                    ok = True
                elif s.op == 'advertise_alternative_service' and (not isinstance(a.get('field'), bytes) or
                                                                   (a.get('origin') is not None and a.get('sid') is not None)):
                    ok = True
                elif s.op == 'acknowledge_received_data' and (a.get('n', 0) < 0 or a.get('sid', 1) <= 0):
                    ok = True
            if not ok:
                self.fail('undocumented-exception', '%s raised %s@%s' % (s.op, x['type'], x['where']), s,
                          op=s.op, exc=x['type'])
            return
        # stream lookup errors
        a = s.args or {}
        sid = a.get('sid')
        if s.op in STREAM_OPS and isinstance(sid, int) and sid > 0 and not s.snap['closed']:
            if s.op == 'increment_flow_control_window' and not (isinstance(a.get('inc'), int) and 1 <= a['inc'] <= MAXID):
                return
            if s.op == 'advertise_alternative_service' and (a.get('origin') is not None or trk.client):
                return
            if s.op == 'push_stream' and (trk.client or not s.snap['peer'].get(2, 1)):
                return
            pre = s.pre.get(sid)
            if pre is None:
                hi = s.snap['hi_mine'] if trk.is_mine(sid) else s.snap['hi_peer']
                if sid > hi and sid <= MAXID:
                    self.probe('never_used_id')
                    if x['type'] != 'NoSuchStreamError' and not (s.op == 'send_data' and x['type'] in ('ValueError', 'TypeError')):
                        self.fail('never-used-stream', '%s on a never-used id raised %s' % (s.op, x['type']), s)
            elif pre.state == 'closed' and self.gc_after[s.ep] >= pre.close_seq:
                self.probe('forgotten_stream')
                if 'StreamClosedError' not in x['mro'] and s.op != 'push_stream':
                    self.fail('forgotten-stream', '%s on a closed and collected stream raised %s' % (s.op, x['type']), s)
