"""The simulated world: two real H2Connection endpoints, a duplex byte network,
and the trace executor.  Everything that happens is an *event* (a dict); a run
is the list of events executed.  Replay = execute the list again.
"""
import sys
import traceback

REPO_SRC = '/repo/src'
if REPO_SRC not in sys.path:
    sys.path.insert(0, REPO_SRC)

import h2  # noqa: E402
import h2.config  # noqa: E402
import h2.connection  # noqa: E402
import h2.events  # noqa: E402
import h2.exceptions  # noqa: E402
import h2.frame_buffer  # noqa: E402
import h2.settings  # noqa: E402
from hpack import HeaderTuple, NeverIndexedHeaderTuple  # noqa: E402

from . import codec as C  # noqa: E402
from .tap import Tap, frame_ends  # noqa: E402
from .model import Tracker  # noqa: E402

assert h2.__file__.startswith(REPO_SRC + '/'), 'h2 not imported from /repo/src: %s' % h2.__file__

H2_DIR = h2.__file__.rsplit('/', 1)[0]


class NullLogger:
    def debug(self, *a, **k):
        pass

    def trace(self, *a, **k):
        pass


DEFAULT_EPCFG = {'header_encoding': None, 'validate_outbound': True, 'normalize_outbound': True,
                 'validate_inbound': True, 'normalize_inbound': True}


def default_cfg():
    return {'c': dict(DEFAULT_EPCFG), 's': dict(DEFAULT_EPCFG),
            'knobs': {'MAX_CLOSED_STREAMS': 65536, 'CONTINUATION_BACKLOG': 64},
            'profile': 'DUPLEX'}


class Step:
    __slots__ = ('idx', 'ep', 'kind', 'op', 'args', 'ok', 'exc', 'ret', 'events', 'raw_events',
                 'out', 'out_frames', 'in_frames', 'chunk', 'tick', 'tainted', 'pre', 'units',
                 'snap', 'rejected', 'obs', 'trailing', 'quirk', 'exact', 'pre_promised')

    def __init__(self):
        self.exc = None
        self.ret = None
        self.events = None
        self.raw_events = None
        self.in_frames = ()
        self.chunk = None
        self.args = None
        self.op = None
        self.tainted = False
        self.pre = None          # call: {sid: St copy or None}; recv: [St copy or None per unit]
        self.units = ()          # recv: dispatch units completed by this chunk
        self.snap = None         # connection-level scalars before the step
        self.rejected = ()       # recv: per unit, answered with RST_STREAM
        self.obs = None          # read-only window probes after the step {sid: (local, remote)}
        self.trailing = 0        # recv: bytes of a not yet complete frame held after this chunk
        self.pre_promised = None  # recv: per unit, pre-state of the promised stream of a PUSH_PROMISE (or None)
        self.quirk = None        # recv: a delivered frame hits a documented dependency quirk
        self.exact = False       # recv: exactly one dispatch unit and nothing else in this chunk (exact attribution)

    def brief(self):
        d = {'i': self.idx, 'ep': self.ep, 'k': self.kind}
        if self.kind == 'call':
            d['op'] = self.op
            d['args'] = enc(self.args)
        else:
            d['n'] = len(self.chunk)
            d['in'] = [f.brief() for f in self.in_frames]
            if self.events is not None:
                d['events'] = [e['t'] for e in self.events]
        if self.exc:
            d['exc'] = [self.exc['type'], self.exc['code'], self.exc['where']]
        d['out'] = [f.brief() for f in self.out_frames]
        return d


def exc_info(e):
    code = getattr(e, 'error_code', None)
    try:
        code = int(code) if code is not None else None
    except Exception:
        code = None
    where = None
    tb = e.__traceback__
    for fs in traceback.extract_tb(tb):
        if fs.filename.startswith(H2_DIR):
            where = '%s.%s' % (fs.filename[len(H2_DIR) + 1:-3], fs.name)
    try:
        msg = str(e)
    except Exception:  # noqa: BLE001
        msg = '<unprintable>'
    return {'type': type(e).__name__,
            'msg': msg,
            'h2': isinstance(e, h2.exceptions.H2Error),
            'proto': isinstance(e, h2.exceptions.ProtocolError),
            'code': code,
            'mro': [k.__name__ for k in type(e).__mro__],
            'where': where,
            'stream_id': getattr(e, 'stream_id', None)}


_EV_FIELDS = {
    'RequestReceived': ('stream_id', 'headers', 'stream_ended', 'priority_updated'),
    'ResponseReceived': ('stream_id', 'headers', 'stream_ended', 'priority_updated'),
    'TrailersReceived': ('stream_id', 'headers', 'stream_ended', 'priority_updated'),
    'InformationalResponseReceived': ('stream_id', 'headers', 'priority_updated'),
    'DataReceived': ('stream_id', 'data', 'flow_controlled_length', 'stream_ended'),
    'WindowUpdated': ('stream_id', 'delta'),
    'RemoteSettingsChanged': ('changed_settings',),
    'PingReceived': ('ping_data',),
    'PingAckReceived': ('ping_data',),
    'StreamEnded': ('stream_id',),
    'StreamReset': ('stream_id', 'error_code', 'remote_reset'),
    'PushedStreamReceived': ('pushed_stream_id', 'parent_stream_id', 'headers'),
    'SettingsAcknowledged': ('changed_settings',),
    'PriorityUpdated': ('stream_id', 'weight', 'depends_on', 'exclusive'),
    'ConnectionTerminated': ('error_code', 'last_stream_id', 'additional_data'),
    'AlternativeServiceAvailable': ('origin', 'field_value'),
    'UnknownFrameReceived': ('frame',),
}


def summarise_events(evs):
    """Plain-data view of a returned event list (types + public fields)."""
    out = []
    ids = [id(e) for e in evs]
    for e in evs:
        t = type(e).__name__
        d = {'t': t}
        for fld in _EV_FIELDS.get(t, ()):
            v = getattr(e, fld, None)
            if fld in ('stream_ended', 'priority_updated'):
                if v is None:
                    d[fld] = None
                else:
                    d[fld] = ids.index(id(v)) if id(v) in ids else -1
            elif fld == 'headers':
                if v is None:
                    d[fld] = None
                else:
                    d[fld] = [(h[0], h[1], type(h).__name__ == 'NeverIndexedHeaderTuple') for h in v]
            elif fld == 'changed_settings':
                d[fld] = {int(k): (cs.original_value, cs.new_value) for k, cs in v.items()}
            elif fld == 'error_code':
                d[fld] = int(v) if v is not None else None
            elif fld == 'frame':
                d[fld] = (getattr(v, 'type', None), getattr(v, 'stream_id', None), bytes(getattr(v, 'body', b'') or b''))
            else:
                d[fld] = v
        out.append(d)
    return out


def mk_headers(hl):
    out = []
    for h in hl:
        if len(h) > 2 and h[2] == 'N':
            out.append(NeverIndexedHeaderTuple(h[0], h[1]))
        elif len(h) > 2 and h[2] == 'H':
            out.append(HeaderTuple(h[0], h[1]))
        else:
            out.append((h[0], h[1]))
    return out


class Endpoint:
    def __init__(self, name, epcfg, knobs):
        self.name = name
        self.client = (name == 'c')
        self.epcfg = epcfg
        klass = h2.connection.H2Connection
        mcs = knobs.get('MAX_CLOSED_STREAMS', 65536)
        if mcs != klass.MAX_CLOSED_STREAMS:
            klass = type('H2ConnectionKnob', (klass,), {'MAX_CLOSED_STREAMS': mcs})
        self.klass = klass
        self.hcfg = h2.config.H2Configuration(
            client_side=self.client,
            header_encoding=epcfg.get('header_encoding'),
            validate_outbound_headers=epcfg.get('validate_outbound', True),
            normalize_outbound_headers=epcfg.get('normalize_outbound', True),
            validate_inbound_headers=epcfg.get('validate_inbound', True),
            normalize_inbound_headers=epcfg.get('normalize_inbound', True),
            logger=NullLogger())
        self.conn = klass(config=self.hcfg)
        self.outbox = bytearray()
        self.out_tap = Tap(expect_preface=self.client)
        self.in_tap = Tap(expect_preface=not self.client)
        self.log = []
        self.total_out = 0
        self.trk = Tracker(self.client)


class Pipe:
    def __init__(self, name):
        self.name = name
        self.backlog = bytearray()
        self.cut = False
        self.tainted = False       # a mode-B fault / adversary bytes touched this direction
        self.delivered = 0
        self.sent = 0


OVER_CAP = 'header block of more frames than the CONTINUATION cap configured for this run'


class World:
    def __init__(self, cfg):
        self.cfg = cfg
        knobs = cfg.get('knobs', {})
        self._saved_backlog = h2.frame_buffer.CONTINUATION_BACKLOG
        h2.frame_buffer.CONTINUATION_BACKLOG = knobs.get('CONTINUATION_BACKLOG', 64)
        self.eps = {'c': Endpoint('c', cfg['c'], knobs), 's': Endpoint('s', cfg['s'], knobs)}
        self.pipes = {'c2s': Pipe('c2s'), 's2c': Pipe('s2c')}
        self.steps = []
        self.trace = []
        self.tick = 0
        self.monitors = []
        self.fault_fired = {}
        self.stop = False
        self.sent_frames = {'c2s': {}, 's2c': {}}   # stream offset -> frame as emitted
        self.observe_windows = False

    def close(self):
        h2.frame_buffer.CONTINUATION_BACKLOG = self._saved_backlog

    @staticmethod
    def peer(ep):
        return 's' if ep == 'c' else 'c'

    @staticmethod
    def out_dir(ep):
        return 'c2s' if ep == 'c' else 's2c'

    @staticmethod
    def in_dir(ep):
        return 's2c' if ep == 'c' else 'c2s'

    @staticmethod
    def dst_of(d):
        return 's' if d == 'c2s' else 'c'

    @staticmethod
    def src_of(d):
        return 'c' if d == 'c2s' else 's'

    # ------------------------------------------------------------------
    def exec(self, ev):
        """Execute one event. Total: never raises for any event in any state
        (harness bugs excepted). Returns the Step produced, if any."""
        self.tick += 1
        self.trace.append(ev)
        k = ev['ev']
        step = None
        if k == 'call':
            step = self._call(ev['ep'], ev['op'], ev.get('a') or {})
        elif k == 'flush':
            self._flush(ev['ep'], ev.get('n'))
        elif k == 'deliver':
            step = self._deliver(ev['dir'], ev['n'], ev.get('cap', 0))
        elif k == 'cut':
            p = self.pipes[ev['dir']]
            p.cut = True
            del p.backlog[:]
            self._fired('cut')
        elif k == 'fault':
            from . import faults
            if faults.apply(self, ev):
                self._fired(ev['kind'])
        elif k == 'inject':
            p = self.pipes[ev['dir']]
            pos = min(ev.get('pos', len(p.backlog)), len(p.backlog))
            p.backlog[pos:pos] = ev['bytes']
            p.tainted = True
            self._fired('inject')
        elif k == 'note':
            for m in self.monitors:
                fn = getattr(m, 'note', None)
                if fn is not None:
                    fn(self, ev)
        else:
            raise ValueError('unknown event %r' % (k,))
        if step is not None:
            for m in self.monitors:
                m.on_step(self, step)
        return step

    def _fired(self, kind):
        self.fault_fired[kind] = self.fault_fired.get(kind, 0) + 1

    def _new_step(self, ep, kind):
        s = Step()
        s.idx = len(self.steps)
        s.ep = ep
        s.kind = kind
        s.tick = self.tick
        return s

    def _finish(self, e, s):
        out = e.conn.data_to_send()
        s.out = out
        s.out_frames = e.out_tap.feed(out) if out else []
        if s.out_frames:
            sf = self.sent_frames[self.out_dir(e.name)]
            for f in s.out_frames:
                f.src_step = s
                sf[f.offset] = f
        e.outbox += out
        e.total_out += len(out)
        e.log.append(s)
        self.steps.append(s)
        self._advance(e, s)
        if self.observe_windows:
            self._observe(e, s)

    def _observe(self, e, s):
        """Read-only probes (harness side, not part of the trace): the two
        public window queries for every live tracked stream."""
        obs = {}
        conn = e.conn
        n = 0
        for sid, st in e.trk.streams.items():
            if st.state == 'closed':
                continue
            n += 1
            if n > 24:
                break
            try:
                obs[sid] = (conn.local_flow_control_window(sid), conn.remote_flow_control_window(sid))
            except Exception as ex:  # noqa: BLE001
                obs[sid] = type(ex).__name__
        s.obs = obs

    @staticmethod
    def _snap(trk):
        return {'conn_send': trk.conn_send, 'conn_recv': trk.conn_recv, 'hi_mine': trk.hi_mine,
                'hi_peer': trk.hi_peer, 'closed': trk.closed, 'dead': trk.dead,
                'closed_how': trk.closed_how,
                'open_mine': trk.count_open(True), 'open_peer': trk.count_open(False),
                'peer': dict(trk.peer), 'mine': dict(trk.mine),
                'outstanding': len(trk.sent_settings), 'close_counter': trk.close_counter,
                'goaway_sent': trk.goaway_sent, 'nstreams': len(trk.streams),
                'hi_peer_maybe': set(trk.hi_peer_maybe)}

    def _advance(self, e, s):
        """Advance the endpoint's wire tracker over this step, remembering the
        pre-state the monitors need."""
        trk = e.trk
        s.snap = self._snap(trk)
        if s.kind == 'call':
            pre = {}
            a = s.args or {}
            for key in ('sid', 'promised'):
                sid = a.get(key)
                if isinstance(sid, int):
                    st = trk.get(sid)
                    pre[sid] = st.copy() if st is not None else None
            s.pre = pre
            if s.op == 'initiate_upgrade_connection' and s.ok:
                pairs = None
                if not e.client and a.get('settings_header') is not None:
                    pairs = a.get('_pairs')
                trk.setup_upgrade(pairs)
            trk.on_out(s.out_frames)
            return
        units = list(e.in_tap.last_units)
        s.units = units
        cap = self.cfg.get('knobs', {}).get('CONTINUATION_BACKLOG', 64)
        if s.quirk is None and any(u.block_frames is not None and len(u.block_frames) > cap for u in units):
            # refused by the DoS cap (C27 judges that); every other oracle abstains as for a dependency quirk
            s.quirk = OVER_CAP
        if len(units) == 1:
            own = set(id(x) for x in (units[0].block_frames or [units[0]]))
            s.exact = all(id(fr) in own for fr in s.in_frames) and (s.ok or s.trailing < 9)

        out_rst = set(f.sid for f in s.out_frames if f.type == C.RST_STREAM)
        pres = []
        ppres = []
        rej = []
        conn_error = not s.ok
        if conn_error:
            trk.dead = True
            if not trk.closed:
                trk.closed = True
                trk.closed_how = 'conn_error'
        accepted = {}
        if len(units) > 1 and s.events:
            for ev in s.events:
                t = ev['t']
                if t in ('RequestReceived', 'ResponseReceived', 'InformationalResponseReceived', 'TrailersReceived'):
                    k = (C.HEADERS, ev['stream_id'])
                elif t == 'DataReceived':
                    k = (C.DATA, ev['stream_id'])
                else:
                    continue
                accepted[k] = accepted.get(k, 0) + 1
        skip_all = conn_error and len(units) > 1     # culprit unknown inside a burst: connection is dead anyway
        for i, f in enumerate(units):
            st = trk.get(f.sid) if f.sid else None
            pres.append(st.copy() if st is not None else None)
            pst = trk.get(f.promised) if (f.type == C.PUSH_PROMISE and f.promised) else None
            ppres.append(pst.copy() if pst is not None else None)
            if skip_all:
                rej.append(False)
                if f.type == C.HEADERS and f.sid and not trk.is_mine(f.sid) and f.sid > trk.hi_peer:
                    trk.hi_peer_maybe.add(f.sid)
                continue
            r = False
            if f.type in (C.HEADERS, C.DATA):
                r = f.sid in out_rst
                if r and len(units) > 1:
                    # burst: the first n frames of this kind on the stream that
                    # produced an event were accepted before the stream error
                    key = (f.type, f.sid)
                    if accepted.get(key, 0) > 0:
                        accepted[key] -= 1
                        r = False
            elif f.type in (C.WINDOW_UPDATE, C.CONTINUATION):
                r = f.sid in out_rst
            elif f.type == C.PUSH_PROMISE:
                r = (f.promised in out_rst) or (f.sid in out_rst)
                if r and f.promised not in out_rst and any(
                        ev['t'] == 'PushedStreamReceived' and ev.get('pushed_stream_id') == f.promised for ev in (s.events or ())):
                    r = False       # (the RST_STREAM on the parent answers another frame of the burst: the promise was reported)
                if not r and st is not None and st.state == 'closed' and st.closed_by == 'rst_sent' and \
                        any(u.type == C.GOAWAY for u in units[i + 1:]) and not any(
                            ev['t'] == 'PushedStreamReceived' and ev.get('pushed_stream_id') == f.promised for ev in (s.events or ())):
                    r = True        # refused, but the RST_STREAM saying so was discarded with all pending output by the GOAWAY
            rej.append(r)
            last = (i == len(units) - 1)
            if f.table_updates and not f.hpack_error and \
                    max(f.table_updates) > trk.mine.get(C.S_HEADER_TABLE_SIZE, 4096):
                f.hpack_error = 'dynamic table size update above the acknowledged HEADER_TABLE_SIZE'
            trk.on_in(f, r, conn_error and last)
        s.pre = pres
        s.pre_promised = ppres
        s.rejected = rej
        trk.on_out(s.out_frames)
        # a local stream error whose RST_STREAM never reached the output (a GOAWAY received later in the same
        # call discards pending output) still closed the stream: follow the library's own report of it
        for ev in s.events or ():
            if ev['t'] == 'StreamReset' and ev.get('remote_reset') is False:
                st = trk.get(ev['stream_id'])
                if st is not None and st.state != 'closed':
                    trk._close(st, 'rst_sent')
                    trk.local_resets[st.sid] = trk.close_counter

    def _flush(self, ep, n):
        e = self.eps[ep]
        p = self.pipes[self.out_dir(ep)]
        if n is None or n >= len(e.outbox):
            data = bytes(e.outbox)
            del e.outbox[:]
        else:
            data = bytes(e.outbox[:n])
            del e.outbox[:n]
        if p.cut:
            return
        p.backlog += data
        p.sent += len(data)

    def _deliver(self, d, n, cap):
        p = self.pipes[d]
        dst = self.eps[self.dst_of(d)]
        n = min(n, len(p.backlog))
        if cap and n:
            ends = frame_ends(dst.in_tap, p.backlog)
            if cap == 1 and ends and n > ends[0]:
                n = ends[0]
            elif cap == 2 and len(ends) >= 2 and n >= ends[1]:
                n = ends[1] - 1
        if n <= 0:
            return None
        chunk = bytes(p.backlog[:n])
        del p.backlog[:n]
        p.delivered += n
        s = self._new_step(dst.name, 'recv')
        s.chunk = chunk
        # a Byzantine fault in one direction also shows in the other (the peer answers what it was fed:
        # an ACK for a SETTINGS frame nobody sent, a RST_STREAM for an injected frame ...)
        s.tainted = self.pipes['c2s'].tainted or self.pipes['s2c'].tainted
        s.in_frames = dst.in_tap.feed(chunk)
        s.trailing = len(dst.in_tap.buf)
        for f in s.in_frames:
            if f.quirk:
                s.quirk = f.quirk
        try:
            evs = dst.conn.receive_data(chunk)
            s.ok = True
            s.raw_events = evs
            s.events = summarise_events(evs)
        except Exception as e:  # noqa: BLE001 - outcome, not error
            s.ok = False
            s.exc = exc_info(e)
        self._finish(dst, s)
        return s

    def _call(self, ep, op, a):
        e = self.eps[ep]
        conn = e.conn
        s = self._new_step(ep, 'call')
        s.op = op
        s.args = a
        try:
            s.ret = self._dispatch(conn, op, a)
            s.ok = True
        except Exception as ex:  # noqa: BLE001 - outcome, not error
            s.ok = False
            s.exc = exc_info(ex)
        self._finish(e, s)
        return s

    @staticmethod
    def _dispatch(conn, op, a):
        if op == 'send_headers':
            kw = {}
            if a.get('es'):
                kw['end_stream'] = True
            for k, kk in (('pw', 'priority_weight'), ('pd', 'priority_depends_on'), ('pe', 'priority_exclusive')):
                if a.get(k) is not None:
                    kw[kk] = a[k]
            return conn.send_headers(a['sid'], mk_headers(a['headers']), **kw)
        if op == 'send_data':
            kw = {}
            if a.get('es'):
                kw['end_stream'] = True
            if a.get('pad') is not None:
                kw['pad_length'] = a['pad']
            return conn.send_data(a['sid'], a['data'], **kw)
        if op == 'end_stream':
            return conn.end_stream(a['sid'])
        if op == 'reset_stream':
            if 'code' in a:
                return conn.reset_stream(a['sid'], error_code=a['code'])
            return conn.reset_stream(a['sid'])
        if op == 'push_stream':
            return conn.push_stream(a['sid'], a['promised'], mk_headers(a['headers']))
        if op == 'ping':
            return conn.ping(a['data'])
        if op == 'prioritize':
            kw = {}
            for k, kk in (('pw', 'weight'), ('pd', 'depends_on'), ('pe', 'exclusive')):
                if a.get(k) is not None:
                    kw[kk] = a[k]
            return conn.prioritize(a['sid'], **kw)
        if op == 'increment_flow_control_window':
            if a.get('sid') is None:
                return conn.increment_flow_control_window(a['inc'])
            return conn.increment_flow_control_window(a['inc'], stream_id=a['sid'])
        if op == 'acknowledge_received_data':
            return conn.acknowledge_received_data(a['n'], a['sid'])
        if op == 'update_settings':
            return conn.update_settings(dict(a['settings']))
        if op == 'advertise_alternative_service':
            kw = {}
            if a.get('origin') is not None:
                kw['origin'] = a['origin']
            if a.get('sid') is not None:
                kw['stream_id'] = a['sid']
            return conn.advertise_alternative_service(a['field'], **kw)
        if op == 'close_connection':
            kw = {}
            if 'code' in a:
                kw['error_code'] = a['code']
            if a.get('debug') is not None:
                kw['additional_data'] = a['debug']
            if a.get('last') is not None:
                kw['last_stream_id'] = a['last']
            return conn.close_connection(**kw)
        if op == 'initiate_connection':
            return conn.initiate_connection()
        if op == 'initiate_upgrade_connection':
            if a.get('settings_header') is not None:
                return conn.initiate_upgrade_connection(a['settings_header'])
            return conn.initiate_upgrade_connection()
        if op == 'set_local_settings':
            # the documented way to pre-configure settings before an upgrade
            conn.local_settings = h2.settings.Settings(client=conn.config.client_side,
                                                       initial_values=dict(a['settings']))
            return None
        if op == 'clear_outbound_data_buffer':
            return conn.clear_outbound_data_buffer()
        # queries (some garbage-collect closed streams)
        if op == 'open_outbound_streams':
            return conn.open_outbound_streams
        if op == 'open_inbound_streams':
            return conn.open_inbound_streams
        if op == 'local_flow_control_window':
            return conn.local_flow_control_window(a['sid'])
        if op == 'remote_flow_control_window':
            return conn.remote_flow_control_window(a['sid'])
        if op == 'get_next_available_stream_id':
            return conn.get_next_available_stream_id()
        if op == 'remote_settings':
            return {int(k): v for k, v in conn.remote_settings.items()}
        if op == 'local_settings':
            return {int(k): v for k, v in conn.local_settings.items()}
        raise ValueError('unknown op %r' % (op,))


# ---------------------------------------------------------------------------
# JSON encoding of events (bytes are tagged hex; tuples become lists)

def enc(o):
    if isinstance(o, bytearray):
        return {'$ba': bytes(o).hex()}      # (not the same thing as bytes to an API that checks its argument types)
    if isinstance(o, bytes):
        return {'$b': o.hex()}
    if isinstance(o, dict):
        if all(isinstance(k, str) for k in o):
            return {k: enc(v) for k, v in o.items()}
        return {'$d': [[enc(k), enc(v)] for k, v in o.items()]}
    if isinstance(o, (list, tuple)):
        return [enc(x) for x in o]
    if isinstance(o, (str, int, float, bool)) or o is None:
        return o
    return {'$r': repr(o)}


def dec(o):
    if isinstance(o, dict):
        if '$b' in o and len(o) == 1:
            return bytes.fromhex(o['$b'])
        if '$ba' in o and len(o) == 1:
            return bytearray.fromhex(o['$ba'])
        if '$d' in o and len(o) == 1:
            return {dec(k): dec(v) for k, v in o['$d']}
        if '$r' in o and len(o) == 1:
            return o['$r']
        return {k: dec(v) for k, v in o.items()}
    if isinstance(o, list):
        return [dec(x) for x in o]
    return o


def run_trace(cfg, events, monitors=(), stop_on_violation=True):
    """Pure function: (cfg, events) -> world after executing them."""
    w = World(cfg)
    try:
        w.monitors = [m for m in monitors]
        for m in w.monitors:
            m.start(w)
        for ev in events:
            w.exec(ev)
            if stop_on_violation and any(m.violations for m in w.monitors):
                break
            if any(getattr(m, 'halt', False) for m in w.monitors):
                break
        for m in w.monitors:
            m.finish(w)
    finally:
        w.close()
    return w
