#!/venv/bin/python
"""Regenerates MANIFEST.json from h2sim.props (so the two never drift)."""
import json, os, sys
HERE = os.path.dirname(os.path.abspath(__file__))
sys.path.insert(0, HERE); sys.path.insert(0, '/repo/src')
from h2sim import props
from h2sim import manifest_text as T

checks = []
for pid in sorted(props.SPECS):
    t = T.TEXT[pid]
    checks.append({
        'property_id': pid,
        'quick_cmd': 'timeout 900 ./check %s --tier quick' % pid,
        'thorough_cmd': 'timeout 7200 ./check %s --tier thorough' % pid,
        'evidence_file': '/verif/evidence/%s.json' % pid,
        'replay_cmd_template': './check %s --replay {path}' % pid,
        'engine': 'h2sim',
        'level_claimed': {'category': 'exploration', 'text': t['level'], 'design_ref': t['ref']},
        'level_note': t['note'],
        'technique': t['technique'],
    })
doc = {
    'version': 1,
    'setup_cmd': 'timeout 1200 ./check --selftest',
    'hooks': {'guard': 'H2_VERIF', 'enable': 'no hooks are needed: every seam is public API, a constructor argument or a class/module attribute set from outside; H2_VERIF is unused by /repo',
              'baseline_off_cmd': 'cd /repo && /venv/bin/python -m pytest -ra -q -p no:cacheprovider --timeout=900 --continue-on-collection-errors',
              'source_commits': [], 'add_only': True},
    'engines': [{'name': 'h2sim', 'path': '/verif/h2sim', 'serves_properties': sorted(props.SPECS),
                 'kind_free_text': 'deterministic simulation with fault injection: two real H2Connection endpoints + simulated apps + simulated duplex byte network under one seeded scheduler; independent wire taps, reference HPACK decoder and RFC wire tracker as oracles; trace replay and delta-debugging minimisation'}],
    'checks': checks,
    'not_applicable': T.NOT_APPLICABLE,
    'notes': 'See DESIGN.md. ./check <ID> --tier quick|thorough; VERIF_SEED selects the batch; known_findings.json lists open/fixed defects.',
}
json.dump(doc, open(os.path.join(HERE, 'MANIFEST.json'), 'w'), indent=1)
print('wrote MANIFEST.json with', len(checks), 'checks;', len(T.NOT_APPLICABLE), 'not applicable')
