"""Independent statement of the documented header normalisation (sending side)
and delivery transformation (receiving side), and of the RFC 7540 8.1.2
conformance rules.  Written from the documentation / RFC, not from utilities.py.
"""

CONNECTION_SPECIFIC = (b'connection', b'proxy-connection', b'keep-alive', b'transfer-encoding', b'upgrade')
PSEUDO_REQUEST = (b':method', b':scheme', b':authority', b':path', b':protocol')
PSEUDO_RESPONSE = (b':status',)
WS = b' \t\n\r\x0b\x0c'


def to_bytes(x):
    return x.encode('utf-8') if isinstance(x, str) else bytes(x)


def strip(x):
    return x.strip()


def wire_expected(headers, scfg):
    """The header list (bytes pairs) that a successful call must put on the
    wire, given the sender's configuration."""
    out = []
    for h in headers:
        n, v = h[0], h[1]
        if scfg.get('normalize_outbound', True):
            n = strip(n.lower())
            v = strip(v)
            if to_bytes(n) in CONNECTION_SPECIFIC:
                continue
        out.append((to_bytes(n), to_bytes(v)))
    return out


def event_expected(wire, rcfg):
    """What the receiver must attach to the event for a delivered block."""
    hs = list(wire)
    if rcfg.get('normalize_inbound', True):
        cookies = [v for n, v in hs if n == b'cookie']
        if cookies:
            hs = [(n, v) for n, v in hs if n != b'cookie'] + [(b'cookie', b'; '.join(cookies))]
    enc = rcfg.get('header_encoding')
    if enc:
        hs = [(n.decode(enc), v.decode(enc)) for n, v in hs]
    return hs


def decodable(wire, rcfg):
    enc = rcfg.get('header_encoding')
    if not enc:
        return True
    try:
        for n, v in wire:
            n.decode(enc)
            v.decode(enc)
    except UnicodeDecodeError:
        return False
    return True


def sensitive(n, v):
    """Fields that must be never-indexed on the wire (documented: authorization,
    proxy-authorization, cookies shorter than 20 bytes)."""
    return n in (b'authorization', b'proxy-authorization') or (n == b'cookie' and len(v) < 20)


def conformant(wire, kind):
    """RFC 7540 8.1.2 conformance of a decoded header list (bytes pairs).

    kind: 'request' | 'response' | 'trailers' | 'push' (pushed request).
    Returns None if conformant, else a short reason."""
    seen_regular = False
    pseudo = {}
    host = None
    method = None
    for n, v in wire:
        if not n:
            return 'empty name'
        if n != n.lower() or any(65 <= c <= 90 for c in n):
            return 'uppercase name'
        if n[:1] in (b' ', b'\t', b'\n', b'\r', b'\x0b', b'\x0c') or n[-1:] in (b' ', b'\t', b'\n', b'\r', b'\x0b', b'\x0c'):
            return 'name whitespace'
        if v and (v[:1] in (b' ', b'\t', b'\n', b'\r', b'\x0b', b'\x0c') or v[-1:] in (b' ', b'\t', b'\n', b'\r', b'\x0b', b'\x0c')):
            return 'value whitespace'
        if n in CONNECTION_SPECIFIC:
            return 'connection-specific field'
        if n == b'te' and v.lower() != b'trailers':
            return 'te not trailers'
        if n.startswith(b':'):
            if seen_regular:
                return 'pseudo after regular'
            if n in pseudo:
                return 'duplicate pseudo'
            if n not in PSEUDO_REQUEST and n not in PSEUDO_RESPONSE:
                return 'unknown pseudo'
            pseudo[n] = v
            if n == b':method':
                method = v
        else:
            seen_regular = True
            if n == b'host':
                host = v
    if kind == 'trailers':
        if pseudo:
            return 'pseudo in trailers'
        return None
    if kind == 'response':
        if b':status' not in pseudo:
            return 'missing :status'
        if any(k in pseudo for k in PSEUDO_REQUEST):
            return 'request pseudo in response'
        return None
    # request / push
    for k in (b':path', b':method', b':scheme'):
        if k not in pseudo:
            return 'missing ' + k.decode()
    if b':status' in pseudo:
        return 'response pseudo in request'
    if b':protocol' in pseudo and method != b'CONNECT':
        return ':protocol without CONNECT'
    auth = pseudo.get(b':authority')
    if auth is None and host is None:
        return 'no :authority or host'
    if auth is not None and host is not None and auth != host:
        return ':authority/host mismatch'
    if not pseudo[b':path']:
        return 'empty :path'
    return None
