"""C23 - priority information round-trips and never changes stream state."""
from .base import Monitor
from .. import codec as C
from ..expect import origin_of

MAXID = 2 ** 31 - 1


class C23(Monitor):
    prop = 'C23'
    name = 'priority'

    def start(self, w):
        w.observe_windows = True
        self.last_obs = {'c': None, 's': None}
        self.prio_idle_max = {'c': 0, 's': 0}

    def on_step(self, w, s):
        e = w.eps[s.ep]
        client = e.client
        prev_obs = self.last_obs[s.ep]
        self.last_obs[s.ep] = s.obs
        if s.kind == 'call':
            a = s.args or {}
            if s.op == 'prioritize' or (s.op == 'send_headers' and any(a.get(k) is not None for k in ('pw', 'pd', 'pe'))):
                self.probe('priority_call')
                pw, pd, sid = a.get('pw'), a.get('pd'), a.get('sid')
                valid = client and (pw is None or 1 <= pw <= 256) and (pd is None or (pd != sid and 0 <= pd <= MAXID)) and \
                    isinstance(sid, int) and 1 <= sid <= MAXID
                if not valid:
                    self.nontrivial = True
                    if s.ok:
                        self.fail('bad-priority-accepted', '%s accepted invalid priority information' % s.op, s,
                                  client=client, weight=pw, depends_on=pd, sid=sid)
                    elif s.out:
                        self.fail('refused-priority-emitted', 'refused priority call emitted bytes', s)
                elif s.op == 'send_headers' and s.ok:
                    # accepted priority arguments go out with the block, whatever kind of block it is
                    hf = [f for f in s.out_frames if f.type == C.HEADERS]
                    want = (pd if pd is not None else 0, bool(a.get('pe')) if a.get('pe') is not None else False,
                            (pw if pw is not None else 16) - 1)
                    self.probe('headers_call_with_priority')
                    if len(hf) != 1 or hf[0].prio != want:
                        self.fail('headers-priority-not-sent', 'send_headers accepted priority arguments but did not emit them', s,
                                  want=want, got=hf[0].prio if hf else None)
                elif s.op == 'prioritize' and not s.ok and not s.snap['closed']:
                    if not (s.exc['where'] or '').endswith('process_input'):
                        self.fail('valid-priority-refused', 'prioritize with valid arguments raised %s' % s.exc['type'], s)
            return
        if s.snap['closed']:
            return
        self._headers_with_priority(w, s, e)
        self._idle_ids(w, s, e)
        # received PRIORITY frames
        prios = [(i, u) for i, u in enumerate(s.units) if u.type == C.PRIORITY and u.bad is None]
        if not prios:
            return
        self.probe('priority_frames')
        if not s.exact:
            return
        i, u = prios[0]
        dep, excl, wt = u.prio
        if dep == u.sid:
            self.nontrivial = True
            if s.ok:
                self.fail('self-dependency-accepted', 'PRIORITY with a self-dependency accepted', s)
            elif s.exc['code'] != C.PROTOCOL_ERROR:
                self.fail('self-dependency-code', 'self-dependency rejected with another code', s)
            return
        if not s.ok:
            self.fail('priority-rejected', 'a valid PRIORITY frame raised %s' % s.exc['type'], s, sid=u.sid)
            return
        want = {'t': 'PriorityUpdated', 'stream_id': u.sid, 'weight': wt + 1, 'depends_on': dep, 'exclusive': excl}
        got = s.events
        if len(got) != 1 or any(got[0].get(k) != v for k, v in want.items()):
            self.fail('priority-event', 'PRIORITY frame did not yield exactly one matching PriorityUpdated', s,
                      got=[g['t'] for g in got], want=want)
            return
        if s.out:
            self.fail('priority-answered', 'PRIORITY frame made the endpoint emit frames', s)
        pre = s.pre[i]
        if pre is None or pre.state == 'closed':
            self.nontrivial = True
        # windows of all live streams unchanged
        if prev_obs is not None and s.obs is not None:
            for sid, o in prev_obs.items():
                if sid in s.obs and s.obs[sid] != o:
                    self.fail('priority-changed-state', 'a PRIORITY frame changed flow-control state', s, sid=sid)
                    break
        # round trip of the sender's call arguments (reliable directions)
        if not s.tainted:
            of = origin_of(w, s.ep, u)
            if of is not None and of.src_step.kind == 'call' and of.src_step.op == 'prioritize':
                a = of.src_step.args
                exp = (a['pw'] if a.get('pw') is not None else 16, a['pd'] if a.get('pd') is not None else 0,
                       bool(a['pe']) if a.get('pe') is not None else False)
                ev = got[0]
                if (ev['weight'], ev['depends_on'], ev['exclusive']) != exp or ev['stream_id'] != a['sid']:
                    self.fail('priority-round-trip', 'PriorityUpdated differs from the prioritize() arguments', s,
                              got=(ev['weight'], ev['depends_on'], ev['exclusive']), want=exp)

    HDR_EVENTS = ('RequestReceived', 'ResponseReceived', 'TrailersReceived', 'InformationalResponseReceived')

    def _headers_with_priority(self, w, s, e):
        """priority fields of a HEADERS frame (whatever the number of CONTINUATION frames behind it)"""
        if not s.exact or s.quirk:
            return
        u = s.units[0]
        if u.type != C.HEADERS or u.prio is None or u.bad is not None:
            return
        dep, excl, wt = u.prio
        if dep == u.sid:
            # a stream that depends on itself (RFC 7540 5.3.1): an error, also when the fields ride on HEADERS
            self.probe('headers_self_dependency')
            self.nontrivial = True
            if s.ok and any(g['t'] in self.HDR_EVENTS and g.get('stream_id') == u.sid for g in s.events):
                self.fail('self-dependency-accepted', 'HEADERS whose priority fields make the stream depend on itself was delivered', s)
            return
        if not s.ok:
            return
        hdr = [(i, g) for i, g in enumerate(s.events) if g['t'] in self.HDR_EVENTS and g.get('stream_id') == u.sid]
        if not hdr:
            return          # block ignored or refused by stream state: nothing is reported at all
        self.probe('headers_with_priority')
        if u.block_frames is not None and len(u.block_frames) > 1:
            self.probe('headers_with_priority_continued')
        i, g = hdr[0]
        j = g.get('priority_updated')
        pe = s.events[j] if isinstance(j, int) and 0 <= j < len(s.events) else None
        want = {'t': 'PriorityUpdated', 'stream_id': u.sid, 'weight': wt + 1, 'depends_on': dep, 'exclusive': excl}
        if pe is None or any(pe.get(k) != v for k, v in want.items()):
            self.fail('headers-priority-lost', 'priority fields of a HEADERS frame are not attached to the header event', s,
                      event=g['t'], got=pe, want=want, frames=len(u.block_frames or ()))
            return
        if sum(1 for x in s.events if x['t'] == 'PriorityUpdated') != 1:
            self.fail('headers-priority-count', 'one HEADERS frame with priority fields gave several PriorityUpdated events', s)
            return
        if not s.tainted:
            of = origin_of(w, s.ep, u)
            if of is not None and of.src_step.kind == 'call' and of.src_step.op == 'send_headers':
                a = of.src_step.args
                exp = (a['pw'] if a.get('pw') is not None else 16, a['pd'] if a.get('pd') is not None else 0,
                       bool(a['pe']) if a.get('pe') is not None else False)
                self.probe('headers_priority_round_trip')
                if (pe['weight'], pe['depends_on'], pe['exclusive']) != exp:
                    self.fail('priority-round-trip', 'PriorityUpdated differs from the send_headers() priority arguments', s,
                              got=(pe['weight'], pe['depends_on'], pe['exclusive']), want=exp)

    def _idle_ids(self, w, s, e):
        """a PRIORITY frame on an idle id does not use that id up: lower idle ids can still be opened"""
        trk = e.trk
        for i, u in enumerate(s.units):
            if (u.type == C.PRIORITY and u.bad is None and s.pre[i] is None and not trk.is_mine(u.sid)
                    and u.sid > s.snap['hi_peer'] and (s.ok or i < len(s.units) - 1)):
                self.prio_idle_max[s.ep] = max(self.prio_idle_max[s.ep], u.sid)
        if not s.exact or s.ok or e.client:
            return
        u = s.units[0]
        if (u.type == C.HEADERS and u.bad is None and s.pre[0] is None and not trk.is_mine(u.sid)
                and s.snap['hi_peer'] < u.sid <= self.prio_idle_max[s.ep]):
            self.probe('open_below_prioritised_idle_id')
            if s.exc['type'] == 'StreamIDTooLowError':
                self.fail('priority-used-up-stream-ids', 'HEADERS on an idle id refused as too low after a PRIORITY frame on a higher idle id', s,
                          sid=u.sid, prioritised=self.prio_idle_max[s.ep], highest_opened=s.snap['hi_peer'])
