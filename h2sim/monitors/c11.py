"""C11 - settings take effect exactly when acknowledged, one frame per ACK, in order."""
from .base import Monitor
from .. import codec as C

MAXW = 2 ** 31 - 1


def valid_pairs(pairs):
    for k, v in pairs:
        if k == C.S_ENABLE_PUSH and v > 1:
            return False
        if k == C.S_ENABLE_CONNECT_PROTOCOL and v > 1:
            return False
        if k == C.S_INITIAL_WINDOW_SIZE and v > MAXW:
            return False
        if k == C.S_MAX_FRAME_SIZE and not (16384 <= v <= 2 ** 24 - 1):
            return False
    return True


class C11(Monitor):
    prop = 'C11'
    name = 'settings'

    def start(self, w):
        self.seen = {'c': {}, 's': {}}        # peer settings received so far (for the 'old value' check)
        self.early = {'c': False, 's': False}
        self.max_outstanding = 0

    def on_step(self, w, s):
        e = w.eps[s.ep]
        trk = e.trk
        if s.kind == 'call':
            if s.op == 'update_settings':
                if s.ok:
                    if s.snap['outstanding'] and e.trk.acks_received == 0:
                        self.early[s.ep] = True
                    self.max_outstanding = max(self.max_outstanding, len(trk.sent_settings))
                    if len(trk.sent_settings) >= 2:
                        self.probe('two_outstanding')
                        self.nontrivial = True
                else:
                    self.probe('failed_update')
                    if s.out:
                        self.fail('failed-update-emitted', 'a raising update_settings emitted bytes', s)
            return
        if s.snap['closed']:
            return
        sets = [u for u in s.units if u.type == C.SETTINGS and u.bad is None]
        if not sets:
            return
        if s.quirk:
            # not judged (hyperframe quirk, e.g. duplicate identifiers) - but what an accepted frame set is remembered
            if s.ok:
                for u in sets:
                    if not u.ack:
                        for k, v in u.settings:
                            self.seen[s.ep][k] = v
            return
        if not s.exact:
            # bursts: only the one-ACK-per-frame count is judged
            if s.ok:
                n_set = sum(1 for u in sets if not u.ack)
                n_ack = sum(1 for f in s.out_frames if f.type == C.SETTINGS and f.ack)
                goaway = any(u.type == C.GOAWAY for u in s.units)
                if n_ack != n_set and not goaway:
                    self.fail('ack-count', 'number of SETTINGS ACK frames differs from SETTINGS frames received', s,
                              acks=n_ack, frames=n_set)
                for u in sets:
                    if not u.ack:
                        for k, v in u.settings:
                            self.seen[s.ep][k] = v
            return
        u = sets[0]
        if not u.ack:
            ok_vals = valid_pairs(u.settings)
            if not ok_vals:
                return      # C12
            # window overflow by an INITIAL_WINDOW_SIZE delta: C12
            if not s.ok:
                return
            evs = [ev for ev in s.events if ev['t'] == 'RemoteSettingsChanged']
            acks = [f for f in s.out_frames if f.type == C.SETTINGS and f.ack]
            if len(evs) != 1 or len(s.events) != 1:
                self.fail('remote-event', 'a SETTINGS frame did not yield exactly one RemoteSettingsChanged', s,
                          events=[ev['t'] for ev in s.events])
                return
            if len(acks) != 1 or len(s.out_frames) != 1:
                self.fail('ack-count', 'a SETTINGS frame was not acknowledged exactly once', s,
                          out=[f.name for f in s.out_frames])
                return
            ch = evs[0]['changed_settings']
            want = {}
            for k, v in u.settings:
                want[k] = v
            if set(ch) != set(want):
                self.fail('remote-event-keys', 'RemoteSettingsChanged lists other settings than the frame', s,
                          got=sorted(ch), want=sorted(want))
                return
            seen = self.seen[s.ep]
            for k, v in want.items():
                old, new = ch[k]
                if new != v:
                    self.fail('remote-event-new', 'RemoteSettingsChanged new value differs from the frame', s, key=k)
                    return
                if k in seen and old != seen[k]:
                    self.fail('remote-event-old', 'RemoteSettingsChanged old value is not the previously received one', s,
                              key=k, got=old, want=seen[k])
                    return
            for k, v in u.settings:
                seen[k] = v
            return
        # an ACK of our own settings
        if not s.ok:
            return
        evs = [ev for ev in s.events if ev['t'] == 'SettingsAcknowledged']
        if len(evs) != 1 or len(s.events) != 1:
            self.fail('ack-event', 'a SETTINGS ACK did not yield exactly one SettingsAcknowledged', s,
                      events=[ev['t'] for ev in s.events])
            return
        # An acknowledgement is never acknowledged.  (WINDOW_UPDATE frames for streams are no answer: they return
        # already-acknowledged bytes that the new INITIAL_WINDOW_SIZE makes due - fix 4a4b14a, property C05.)
        if any(not (f.type == C.WINDOW_UPDATE and f.sid != 0) for f in s.out_frames):
            self.fail('ack-answered', 'a SETTINGS ACK made the endpoint emit frames', s,
                      frames=[f.name for f in s.out_frames][:6])
        want = trk.last_ack_changes or {}
        got = evs[0]['changed_settings']
        self.probe('acks')
        if {k: tuple(v) for k, v in got.items()} != {k: tuple(v) for k, v in want.items()}:
            kind = 'ack-changes'
            if self.early[s.ep]:
                kind = 'initial-ack-applies-later-update'
            self.fail(kind, 'SettingsAcknowledged.changed_settings differs from the acknowledged frame', s,
                      got={k: tuple(v) for k, v in got.items()}, want=want, outstanding=s.snap['outstanding'])
