"""C10 - concurrent-stream limits are respected and enforced."""
from .base import Monitor
from .. import codec as C


class C10(Monitor):
    prop = 'C10'
    name = 'concurrency'

    def on_step(self, w, s):
        e = w.eps[s.ep]
        trk = e.trk
        client = e.client
        if s.kind == 'call':
            if s.op in ('open_outbound_streams', 'open_inbound_streams') and s.ok and not s.snap['closed']:
                want = trk.count_open(s.op == 'open_outbound_streams')
                self.probe('count_query')
                if s.ret != want:
                    self.fail('open-count', '%s differs from the RFC count of open/half-closed streams' % s.op, s,
                              got=s.ret, want=want)
            if s.op == 'send_headers' and not s.snap['closed']:
                sid = s.args.get('sid')
                pre = s.pre.get(sid) if isinstance(sid, int) else None
                opening = (pre is None and client and isinstance(sid, int) and trk.is_mine(sid) and
                           s.snap['hi_mine'] < sid <= 2 ** 31 - 1) or (pre is not None and pre.state == 'rsvL')
                lim = s.snap['peer'].get(C.S_MAX_CONCURRENT_STREAMS)
                if opening and lim is not None:
                    over = s.snap['open_mine'] + 1 > lim
                    if over:
                        self.probe('limit_reached')
                        self.nontrivial = True
                        if s.ok:
                            self.fail('limit-exceeded', 'a stream was opened beyond the peer MAX_CONCURRENT_STREAMS', s,
                                      open=s.snap['open_mine'], limit=lim, reserved=pre is not None)
                        elif s.exc['type'] != 'TooManyStreamsError' and pre is None:
                            pass    # another refusal reason came first: fine
                    elif not s.ok and s.exc['type'] == 'TooManyStreamsError':
                        self.fail('spurious-limit', 'TooManyStreamsError below the peer limit', s,
                                  open=s.snap['open_mine'], limit=lim)
                elif not s.ok and s.exc['type'] == 'TooManyStreamsError' and lim is None:
                    self.fail('spurious-limit', 'TooManyStreamsError although the peer set no limit', s)
            return
        # inbound: a peer HEADERS that opens a stream
        if s.snap['closed'] or not s.exact or s.quirk:
            return
        f = s.units[0]
        if f.type != C.HEADERS or f.block_frames is None or f.bad or f.hpack_error:
            return
        pre = s.pre[0]
        opening = (pre is None and not client and not trk.is_mine(f.sid) and f.sid > s.snap['hi_peer']) or \
                  (pre is not None and pre.state == 'rsvR')
        if not opening:
            return
        lim = s.snap['mine'].get(C.S_MAX_CONCURRENT_STREAMS)
        if lim is None:
            return
        over = s.snap['open_peer'] + 1 > lim
        rejected = (not s.ok) or any(x.type == C.RST_STREAM and x.sid == f.sid for x in s.out_frames)
        if over:
            self.probe('inbound_limit_reached')
            self.nontrivial = True
            if not rejected:
                self.fail('inbound-limit-not-enforced', 'peer HEADERS beyond the acknowledged local limit was accepted', s,
                          open=s.snap['open_peer'], limit=lim, reserved=pre is not None)
        elif not s.ok and s.exc['type'] == 'TooManyStreamsError':
            self.fail('inbound-spurious-limit', 'peer HEADERS within the acknowledged limit refused as too many streams', s,
                      open=s.snap['open_peer'], limit=lim)
