"""Developer tool: print the steps of one run.  python -m h2sim.dbg PROP PROFILE IDX [seed]"""
import json
import sys
sys.path.insert(0, '/repo/src')
from . import runner, props
from .gen import Gen


def main():
    prop, profile, idx = sys.argv[1], sys.argv[2], int(sys.argv[3])
    base = int(sys.argv[4]) if len(sys.argv) > 4 else 1
    sd = runner.seed64(base, profile, idx)
    spec = props.SPECS[prop]
    mons = spec.monitors()
    g = Gen(sd, profile, mons, overrides=spec.overrides(profile), avoid=spec.avoid_for(sd, runner.base_opts(prop)))
    w = g.run()
    if not any(m.violations for m in mons) and g.branch_findings:
        # the violation arose in a what-if branch: show that branch (replayed from its own trace)
        from .world import run_trace
        mons = spec.monitors()
        w = run_trace(g.cfg, g.branch_findings[0][1], mons)
        print('(what-if branch; trace of %d events)' % len(g.branch_findings[0][1]))
    print(json.dumps(w.cfg, default=repr))
    for s in w.steps[-int(sys.argv[5]) if len(sys.argv) > 5 else 0:]:
        print(json.dumps(s.brief(), default=repr)[:600])
    for m in mons:
        for v in m.violations:
            print(v)
    for ep in 'cs':
        print(ep, list(w.eps[ep].trk.streams.values()))


main()
