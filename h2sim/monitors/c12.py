"""C12 - SETTINGS values are validated with the RFC-mandated error codes."""
from .base import Monitor
from .. import codec as C

MAXW = 2 ** 31 - 1
P, F = C.PROTOCOL_ERROR, C.FLOW_CONTROL_ERROR
BOUNDARY = {0, 1, 2, 16383, 16384, 2 ** 24 - 1, 2 ** 24, MAXW, MAXW + 1, 2 ** 32 - 1}


def verdict(k, v):
    """None = accept, else the mandated error code."""
    if k == C.S_ENABLE_PUSH and v not in (0, 1):
        return P
    if k == C.S_ENABLE_CONNECT_PROTOCOL and v not in (0, 1):
        return P
    if k == C.S_INITIAL_WINDOW_SIZE and v > MAXW:
        return F
    if k == C.S_MAX_FRAME_SIZE and not (16384 <= v <= 2 ** 24 - 1):
        return P
    return None


class C12(Monitor):
    prop = 'C12'
    name = 'settings-values'

    def on_step(self, w, s):
        e = w.eps[s.ep]
        trk = e.trk
        if s.kind == 'call':
            if s.op in ('update_settings', 'set_local_settings'):
                d = s.args['settings']
                codes = [verdict(k, v) for k, v in d.items()]
                bad = [c for c in codes if c is not None]
                if any(v in BOUNDARY for v in d.values()) or bad:
                    self.probe('boundary_value_local')
                    self.nontrivial = True
                if bad:
                    if s.ok:
                        self.fail('invalid-accepted-local', '%s accepted an out-of-range value' % s.op, s, settings=dict(d))
                    elif s.exc['type'] != 'InvalidSettingsValueError' and not s.snap['closed']:
                        self.fail('invalid-wrong-exception', '%s raised %s for an invalid value' % (s.op, s.exc['type']), s)
                    elif s.exc['type'] == 'InvalidSettingsValueError' and s.exc['code'] not in bad:
                        self.fail('invalid-wrong-code-local', 'InvalidSettingsValueError carries the wrong code', s,
                                  got=s.exc['code'], want=bad)
                elif not s.ok and not s.snap['closed'] and s.exc['type'] == 'InvalidSettingsValueError':
                    self.fail('valid-refused-local', '%s refused in-range values' % s.op, s, settings=dict(d))
            elif s.op == 'initiate_upgrade_connection' and not e.client and (s.args or {}).get('_pairs') is not None:
                # settings received in the HTTP2-Settings header of an h2c upgrade
                pairs = s.args['_pairs']
                if len(set(k for k, _ in pairs)) != len(pairs):
                    return
                bad = sorted(set(c for c in (verdict(k, v) for k, v in pairs) if c is not None))
                if any(v in BOUNDARY for _, v in pairs) or bad:
                    self.probe('boundary_value_upgrade_header')
                    self.nontrivial = True
                if bad:
                    if s.ok:
                        self.fail('invalid-accepted', 'an HTTP2-Settings header with an out-of-range value was accepted', s, settings=pairs)
                    elif s.exc['code'] not in bad:
                        self.fail('invalid-wrong-code', 'out-of-range value in the HTTP2-Settings header rejected with the wrong code', s,
                                  got=s.exc['code'], want=bad, exc=s.exc['type'])
                elif not s.ok:
                    self.fail('valid-refused', 'an HTTP2-Settings header with in-range values was refused', s, settings=pairs,
                              exc=s.exc['type'])
            return
        if s.snap['closed'] or not s.exact or s.quirk:
            return
        u = s.units[0]
        if u.type != C.SETTINGS or u.ack or u.bad is not None or u.length > s.snap['mine'][C.S_MAX_FRAME_SIZE]:
            return
        codes = [verdict(k, v) for k, v in u.settings]
        bad = sorted(set(c for c in codes if c is not None))
        if any(v in BOUNDARY for _, v in u.settings) or bad or any(k > 8 or k in (0, 7) for k, _ in u.settings):
            self.probe('boundary_value_wire')
            self.nontrivial = True
        if bad:
            if s.ok:
                self.fail('invalid-accepted', 'a SETTINGS frame with an out-of-range value was accepted', s,
                          settings=[list(x) for x in u.settings])
            elif s.exc['code'] not in bad:
                self.fail('invalid-wrong-code', 'out-of-range setting rejected with the wrong code', s,
                          got=s.exc['code'], want=bad)
            return
        # the history-dependent clause: INITIAL_WINDOW_SIZE delta pushing a stream window above 2^31-1
        overflow = False
        peer = dict(s.snap['peer'])
        for k, v in u.settings:
            if k == C.S_INITIAL_WINDOW_SIZE:
                delta = v - peer[k]
                peer[k] = v
                for i_st in self._streams_before(e, s):
                    if i_st.state != 'closed' and i_st.send_win + delta > MAXW:
                        overflow = True
        if overflow:
            self.probe('window_overflow_clause')
            if s.ok:
                self.fail('overflow-accepted', 'an INITIAL_WINDOW_SIZE change pushing a stream window above 2^31-1 was accepted', s)
            elif s.exc['code'] != F:
                self.fail('overflow-wrong-code', 'window overflow by settings rejected with the wrong code', s, got=s.exc['code'])
            return
        if not s.ok:
            self.fail('valid-rejected', 'a SETTINGS frame with in-range values and identifiers was rejected', s,
                      settings=[list(x) for x in u.settings], exc=s.exc['type'], code=s.exc['code'])

    def _streams_before(self, e, s):
        # send windows before this step: the tracker has already applied the delta, so undo it
        out = []
        delta_applied = e.trk.peer[C.S_INITIAL_WINDOW_SIZE] - s.snap['peer'][C.S_INITIAL_WINDOW_SIZE] if s.ok else 0
        for st in e.trk.streams.values():
            c = st.copy()
            if c.state != 'closed':
                c.send_win -= delta_applied
            out.append(c)
        return out
