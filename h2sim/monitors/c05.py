"""C05 - automatic window management never deadlocks and never over-credits."""
from .base import Monitor
from .. import codec as C

MAXW = 2 ** 31 - 1


class C05(Monitor):
    prop = 'C05'
    name = 'auto-window'

    def start(self, w):
        self.recv = {'c': {}, 's': {}}       # ep -> sid -> flow-controlled bytes received (events)
        self.acked = {'c': {}, 's': {}}      # ep -> sid -> bytes passed to acknowledge_received_data (ok calls)
        self.credit = {'c': {}, 's': {}}     # ep -> sid|0 -> acknowledged bytes not yet turned into WINDOW_UPDATE
        self.manual = {'c': False, 's': False}
        self.hit_zero = {'c': False, 's': False}
        self.closed_data = {'c': 0, 's': 0}

    def on_step(self, w, s):
        ep = s.ep
        e = w.eps[ep]
        trk = e.trk
        cr = self.credit[ep]
        if s.kind == 'call' and s.op == 'increment_flow_control_window' and s.ok:
            self.manual[ep] = True          # manual increments move the maximum: outside this property
        added = 0       # credit that arose during this very step: an update emitted in between need not cover it
        if s.kind == 'recv':
            for i, f in enumerate(s.units):
                if f.type == C.DATA and not f.bad and not s.snap['closed']:
                    pre = s.pre[i]
                    if pre is None or pre.state not in ('open', 'hcL') or s.rejected[i]:
                        # DATA on a closed / non-receivable stream: acknowledged on the user's behalf
                        cr[0] = cr.get(0, 0) + f.fc_len
                        added += f.fc_len
                        self.closed_data[ep] += f.fc_len
                        if f.fc_len:
                            self.probe('data_on_closed_stream')
            for ev in s.events or ():
                if ev['t'] == 'DataReceived':
                    d = self.recv[ep]
                    d[ev['stream_id']] = d.get(ev['stream_id'], 0) + ev['flow_controlled_length']
        if s.kind == 'call' and s.op == 'acknowledge_received_data' and s.ok:
            n, sid = s.args['n'], s.args['sid']
            cr[0] = cr.get(0, 0) + n
            pre = s.pre.get(sid)
            if pre is not None and pre.state in ('open', 'hcL', 'hcR'):
                cr[sid] = cr.get(sid, 0) + n
            a = self.acked[ep]
            a[sid] = a.get(sid, 0) + n
        if self.manual[ep] or trk.dead:
            return
        auto = (s.kind == 'recv') or (s.kind == 'call' and s.op == 'acknowledge_received_data')
        zero_after = set()
        for f in s.out_frames:
            if f.type != C.WINDOW_UPDATE or not auto:
                continue
            inc = f.increment or 0
            have = cr.get(f.sid, 0)
            if inc > have:
                self.fail('over-credit', 'WINDOW_UPDATE increment exceeds acknowledged bytes', s,
                          sid=f.sid, inc=inc, acknowledged=have)
            cr[f.sid] = max(have - inc, 0)
            self.probe('auto_window_update')
            # an update hands back everything acknowledged so far, unless that would lift the window above its
            # maximum (then the rest is dropped for good)
            if f.sid == 0:
                at_max = trk.conn_recv >= 65535
            else:
                st = trk.get(f.sid)
                at_max = st is None or st.recv_win >= trk.mine[C.S_INITIAL_WINDOW_SIZE] or bool(trk.sent_settings)
            if at_max:
                zero_after.add(f.sid)   # (what is left over is dropped once all updates of this step are accounted for)
            elif cr[f.sid] > 0 and inc < have - (added if f.sid == 0 else 0):
                self.fail('under-credit', 'WINDOW_UPDATE hands back less than was acknowledged although the window stays below its maximum', s,
                          sid=f.sid, inc=inc, acknowledged=have)
        for sid_ in zero_after:
            cr[sid_] = 0
        # nothing is owed while a window is at its maximum (the library drops such credit)
        if trk.conn_recv >= 65535:
            cr[0] = 0
        for st in trk.streams.values():
            if st.state != 'closed' and st.recv_win >= trk.mine[C.S_INITIAL_WINDOW_SIZE] and cr.get(st.sid):
                cr[st.sid] = 0
        # advertised windows never above their maximum
        if trk.conn_recv > 65535 or trk.conn_recv > MAXW:
            self.fail('above-maximum', 'connection window above its maximum', s, window=trk.conn_recv)
        mx = trk.mine[C.S_INITIAL_WINDOW_SIZE]
        for st in trk.streams.values():
            if st.state == 'closed':
                continue
            if st.recv_win > mx and not trk.sent_settings:
                self.fail('above-maximum', 'stream window above its maximum', s, sid=st.sid, window=st.recv_win, maximum=mx)
                break
            if st.recv_win == 0 and mx > 0:
                self.hit_zero[ep] = True
        if trk.conn_recv == 0:
            self.hit_zero[ep] = True
        if self.hit_zero[ep]:
            self.nontrivial = True
        # progress: once everything received has been acknowledged, no window with positive maximum is 0
        if trk.closed or trk.sent_settings:
            return
        rc, ak = self.recv[ep], self.acked[ep]
        if all(ak.get(sid, 0) >= n for sid, n in rc.items()):
            self.probe('quiescent_point')
            if trk.conn_recv <= 0:
                self.fail('stall', 'connection window is not positive although all data was acknowledged', s,
                          window=trk.conn_recv)
            for st in trk.streams.values():
                if st.state in ('open', 'hcL') and mx > 0 and st.recv_win <= 0:
                    self.fail('stall', 'stream window is not positive although all data was acknowledged', s,
                              sid=st.sid, window=st.recv_win, maximum=mx)
                    break
