"""C25 - h2c upgrade hands over settings and stream 1 consistently."""
from .base import Monitor
from .c01 import C01
from .. import codec as C


class C25(Monitor):
    prop = 'C25'
    name = 'upgrade'

    def start(self, w):
        self.client_local = None
        self.upgraded = {'c': False, 's': False}
        self.opened = {'c': False, 's': False}

    def on_step(self, w, s):
        if s.kind != 'call':
            return
        e = w.eps[s.ep]
        if s.op == 'initiate_upgrade_connection':
            if not s.ok:
                self.fail('upgrade-raised', 'initiate_upgrade_connection raised %s' % s.exc['type'], s)
                return
            self.upgraded[s.ep] = True
            if e.client and not isinstance(s.ret, bytes):
                self.fail('settings-header-type', 'client initiate_upgrade_connection did not return bytes', s)
            return
        if not (self.upgraded['c'] and self.upgraded['s']):
            return
        if s.op == 'local_settings' and s.ep == 'c' and s.ok:
            self.client_local = dict(s.ret)
            self.probe('client_settings_read')
            if any(v != d for v, d in ((self.client_local.get(k), dv) for k, dv in
                                       ((1, 4096), (2, 1), (4, 65535), (5, 16384), (8, 0), (3, 100), (6, 65536)))):
                self.nontrivial = True
        elif s.op == 'remote_settings' and s.ep == 's' and s.ok and self.client_local is not None:
            view = dict(s.ret)
            for k, v in self.client_local.items():
                if view.get(k) != v:
                    self.fail('settings-view', "the server's view of the client settings differs from the client's local settings", s,
                              key=k, client=v, server=view.get(k))
                    return
            self.probe('settings_view_equal')
        elif s.op == 'get_next_available_stream_id' and s.ok and not self.opened[s.ep] and \
                e.trk.hi_mine == (1 if e.client else 0):
            want = 3 if e.client else 2
            if s.ret != want:
                self.fail('next-id', 'first stream id after the upgrade is not %d' % want, s, got=s.ret)
        elif s.op in ('send_data', 'end_stream', 'send_headers') and s.ep == 'c' and (s.args or {}).get('sid') == 1:
            self.probe('client_send_on_stream_1')
            self.nontrivial = True
            if s.ok:
                self.fail('request-body-on-stream-1', 'client %s on the upgraded stream 1 succeeded' % s.op, s)
            elif s.out:
                self.fail('refused-send-emitted', 'refused send on stream 1 emitted bytes', s)
        elif s.op == 'send_headers' and s.ep == 's' and (s.args or {}).get('sid') == 1 and s.ok:
            self.probe('server_answers_stream_1')
        if s.op in ('send_headers', 'push_stream') and s.ok:
            self.opened[s.ep] = True


class C25E2E(C01):
    """the rest of the exchange on an upgraded connection: as C01"""
    prop = 'C25'
    name = 'upgrade-e2e'


from .c03 import C03  # noqa: E402


class C25Flow(C03):
    """'continue as a normal connection': after an upgrade that handed over a
    non-default INITIAL_WINDOW_SIZE, both sides' send windows (connection and
    streams, stream 1 included) are the wire-derived ones - the C03 oracle."""
    prop = 'C25'
    name = 'upgrade-windows'

    def on_step(self, w, s):
        nt = self.nontrivial
        super().on_step(w, s)
        self.nontrivial = nt
