"""C27 - peer-controlled retained state stays bounded."""
from .base import Monitor
from .. import codec as C
from ..world import OVER_CAP


def _get(obj, path):
    for p in path.split('.'):
        obj = getattr(obj, p, None)
        if obj is None:
            return None
    return obj


class C27(Monitor):
    prop = 'C27'
    name = 'bounded-state'

    def start(self, w):
        self.knob = w.cfg['knobs'].get('MAX_CLOSED_STREAMS', 65536)
        self.backlog = w.cfg['knobs'].get('CONTINUATION_BACKLOG', 64)
        self.frames = {'c': 0, 's': 0}
        self.maxes = {'streams': 0, 'closed': 0, 'hdrbuf': 0, 'inbuf': 0}
        self.after_close = {}
        self.pile = {}

    def on_step(self, w, s):
        e = w.eps[s.ep]
        trk = e.trk
        conn = e.conn
        if s.kind == 'recv':
            self.frames[s.ep] += len(s.in_frames)
            if self.frames[s.ep] >= 2000:
                self.nontrivial = True
            self._limits(w, e, s)
        # read-only measurements of the retained tables
        streams = _get(conn, 'streams')
        closed = _get(conn, '_closed_streams')
        hdrbuf = _get(conn, 'incoming_buffer._headers_buffer')
        inbuf = _get(conn, 'incoming_buffer.data')
        if closed is not None:
            self.maxes['closed'] = max(self.maxes['closed'], len(closed))
            if len(closed) > self.knob:
                self.fail('closed-memory-above-cap', 'memory of closed streams exceeds its cap', s, size=len(closed), cap=self.knob)
        if hdrbuf is not None:
            self.maxes['hdrbuf'] = max(self.maxes['hdrbuf'], len(hdrbuf))
            if len(hdrbuf) > self.backlog + (0 if s.ok else 1):     # the frame that trips the cap is still held when it raises
                self.fail('continuation-backlog', 'more header fragments buffered than the CONTINUATION cap', s,
                          frames=len(hdrbuf), cap=self.backlog)
        if inbuf is not None:
            self.maxes['inbuf'] = max(self.maxes['inbuf'], len(inbuf))
            if len(inbuf) > 9 + 2 ** 24:
                self.fail('input-buffer', 'input buffer holds more than one maximum-size frame', s, size=len(inbuf))
        if streams is None:
            self.probe('unmeasurable_streams')
            return
        self.maxes['streams'] = max(self.maxes['streams'], len(streams))
        self._pile_up(w, e, s, len(streams))
        # a closed connection refuses every frame and call before it creates anything
        st_name = getattr(_get(conn, 'state_machine.state'), 'name', None)
        was = self.after_close.get(s.ep)
        if was is not None and len(streams) > was:
            self.probe('growth_after_close')
            self.fail('streams-grow-after-close', 'the stream table grew on a closed connection', s,
                      before=was, after=len(streams), frames=self.frames[s.ep])
        if st_name == 'CLOSED':
            if was is None:
                self.probe('closed_connection_watched')
            self.after_close[s.ep] = len(streams)
        if s.kind == 'call' and s.ok and s.op in ('open_inbound_streams', 'open_outbound_streams') and not trk.dead:
            # right after a garbage-collecting query only live streams may be retained
            live = sum(1 for st in trk.streams.values() if st.state != 'closed')
            self.probe('gc_points')
            if len(streams) != live:
                self.fail('retained-streams', 'stream table size differs from the number of live streams after clean-up', s,
                          table=len(streams), live=live, frames=self.frames[s.ep])

    def _pile_up(self, w, e, s, table):
        """Closed streams may stay in the table until the next clean-up, and every registration of a new stream is a
        clean-up (sending or receiving HEADERS that open one, receiving a PUSH_PROMISE, reading open_*_streams).  So
        the table never holds more than the live streams plus the streams that closed since the last such moment."""
        trk = e.trk
        ep = s.ep
        st = self.pile.setdefault(ep, {'closes_at_gc': trk.close_counter, 'seen': set(trk.streams), 'cc': trk.close_counter})
        before = st['cc']           # closures up to the previous step of this endpoint
        st['cc'] = trk.close_counter
        new = [sid for sid in trk.streams if sid not in st['seen']]
        st['seen'].update(new)
        gc = False
        if s.kind == 'call' and s.ok and s.op in ('open_inbound_streams', 'open_outbound_streams'):
            gc = True
        elif s.ok and new and s.kind == 'recv' and any(ev['t'] in ('RequestReceived', 'PushedStreamReceived') for ev in (s.events or ())):
            gc = True
        elif s.kind == 'call' and s.ok and s.op == 'send_headers' and new and e.client:
            gc = True
        if trk.dead:
            return
        live = sum(1 for x in trk.streams.values() if x.state != 'closed')
        # closures during this very step may have happened after its clean-up
        bound = live + (trk.close_counter - st['closes_at_gc'])
        if table > bound + 1:
            self.probe('pile_up_checked')
            self.fail('closed-streams-pile-up', 'the stream table holds more closed streams than have closed since the last clean-up opportunity', s,
                      table=table, live=live, closed_since=trk.close_counter - st['closes_at_gc'], frames=self.frames[ep])
        if gc:
            st['closes_at_gc'] = before      # (streams that closed in this very step may have closed after its clean-up)
            self.probe('cleanup_opportunity')

    def _limits(self, w, e, s):
        """over-long CONTINUATION chains and oversize header lists must be refused"""
        if s.snap['closed'] or not s.exact or (s.quirk and s.quirk != OVER_CAP):
            return
        f = s.units[0]
        if f.type not in (C.HEADERS, C.PUSH_PROMISE) or f.block_frames is None or f.bad:
            return
        mine = s.snap['mine']
        if any(x.length > mine[C.S_MAX_FRAME_SIZE] or x.bad for x in f.block_frames):
            return
        if len(f.block_frames) > self.backlog:
            self.probe('continuation_flood')
            if s.ok:
                self.fail('continuation-flood-accepted', 'a header block of more frames than the CONTINUATION cap was accepted', s,
                          frames=len(f.block_frames), cap=self.backlog)
            return
        if f.hpack_error or f.headers is None:
            return
        lim = mine.get(C.S_MAX_HEADER_LIST_SIZE)
        if lim is None:
            return
        if f.header_list_size > lim:
            self.probe('oversize_header_list')
            if s.ok:
                self.fail('oversize-list-accepted', 'a header list above the acknowledged MAX_HEADER_LIST_SIZE was accepted', s,
                          size=f.header_list_size, limit=lim)
            elif s.exc['code'] != C.ENHANCE_YOUR_CALM and f.type == C.HEADERS:
                # other defects of the same block may legitimately win only if they are detected before decoding
                if s.exc['type'] not in ('TooManyStreamsError',):
                    self.fail('oversize-list-code', 'oversize header list refused with code %s' % s.exc['code'], s,
                              size=f.header_list_size, limit=lim, exc=s.exc['type'])
        elif not s.ok and s.exc['code'] == C.ENHANCE_YOUR_CALM and not (s.tainted and e.trk.table_size_changed):
            self.fail('list-within-limit-refused', 'a header list within the acknowledged limit was refused as too large', s,
                      size=f.header_list_size, limit=lim)

    def finish(self, w):
        for k, v in self.maxes.items():
            self.probe('max_' + k, v)
