"""C07 - received events per stream follow the HTTP message grammar for the role."""
from .base import Monitor

HEADERS_EV = ('RequestReceived', 'ResponseReceived', 'InformationalResponseReceived', 'TrailersReceived')


class C07(Monitor):
    prop = 'C07'
    name = 'event-grammar'

    def start(self, w):
        # per endpoint, per stream: phase in none/info/final/data/trailers ; ended ; reset
        self.st = {'c': {}, 's': {}}

    def on_step(self, w, s):
        if s.kind != 'recv' or not s.events:
            return
        ep = s.ep
        client = (ep == 'c')
        evs = s.events
        if s.tainted:
            self.nontrivial = True
        for i, ev in enumerate(evs):
            t = ev['t']
            for fld in ('stream_ended', 'priority_updated'):
                if fld in ev and ev[fld] is not None:
                    j = ev[fld]
                    if j < 0:
                        self.fail('related-event', '%s.%s is not in the returned list' % (t, fld), s)
                    elif j <= i:
                        self.fail('related-event', '%s.%s does not appear later in the list' % (t, fld), s)
                    else:
                        want = 'StreamEnded' if fld == 'stream_ended' else 'PriorityUpdated'
                        if evs[j]['t'] != want or evs[j].get('stream_id') != ev.get('stream_id'):
                            self.fail('related-event', '%s.%s refers to a wrong event' % (t, fld), s)
            sid = ev.get('stream_id')
            if t == 'PushedStreamReceived':
                if not client:
                    self.fail('role', 'server reported PushedStreamReceived', s)
                ps = self.st[ep].get(ev['parent_stream_id'])
                if ps is not None and (ps['reset'] or ps['ended']):
                    self.fail('after-end', 'push reported on an ended/reset parent stream', s, sid=ev['parent_stream_id'])
                continue
            if sid is None or t in ('PriorityUpdated', 'WindowUpdated', 'AlternativeServiceAvailable'):
                if t == 'PriorityUpdated':
                    continue
                if t == 'WindowUpdated' and sid:
                    r = self.st[ep].get(sid)
                    if r is not None and r['reset']:
                        self.fail('after-reset', 'WindowUpdated after StreamReset', s, sid=sid)
                continue
            r = self.st[ep].setdefault(sid, {'phase': 'none', 'ended': False, 'reset': False})
            if r['reset']:
                self.fail('after-reset', '%s after StreamReset' % t, s, sid=sid)
                continue
            if t == 'StreamReset':
                r['reset'] = True
                continue
            if t == 'StreamEnded':
                if r['ended']:
                    self.fail('double-end', 'second StreamEnded', s, sid=sid)
                if r['phase'] in ('none', 'info'):
                    self.fail('end-before-headers', 'StreamEnded before final headers', s, sid=sid)
                r['ended'] = True
                continue
            if r['ended']:
                self.fail('after-end', '%s after StreamEnded' % t, s, sid=sid)
                continue
            if t == 'RequestReceived':
                if client:
                    self.probe('request_event_at_client')
                    self.fail('role', 'client reported RequestReceived', s, sid=sid)
                if r['phase'] != 'none':
                    self.fail('order', 'second RequestReceived', s, sid=sid)
                r['phase'] = 'final'
            elif t == 'InformationalResponseReceived':
                if not client:
                    self.fail('role', 'server reported InformationalResponseReceived', s, sid=sid)
                if r['phase'] not in ('none', 'info'):
                    self.fail('order', 'informational response after final headers', s, sid=sid)
                r['phase'] = 'info'
            elif t == 'ResponseReceived':
                if not client:
                    self.fail('role', 'server reported ResponseReceived', s, sid=sid)
                if r['phase'] not in ('none', 'info'):
                    self.fail('order', 'second ResponseReceived', s, sid=sid)
                r['phase'] = 'final'
            elif t == 'DataReceived':
                if r['phase'] not in ('final', 'data'):
                    self.fail('order', 'DataReceived before final headers or after trailers', s, sid=sid, phase=r['phase'])
                r['phase'] = 'data'
            elif t == 'TrailersReceived':
                if r['phase'] not in ('final', 'data'):
                    self.fail('order', 'TrailersReceived out of order', s, sid=sid, phase=r['phase'])
                if ev.get('stream_ended') is None:
                    self.fail('trailers-without-end', 'TrailersReceived without stream_ended', s, sid=sid)
                r['phase'] = 'trailers'
