"""Batch runner: seeded search over schedules / workloads / faults on all cores,
violation minimisation, replay files, known-finding matching, evidence."""
import faulthandler
import hashlib
import json
import os
import re
import subprocess
import sys
import time
import traceback
from concurrent.futures import ProcessPoolExecutor, as_completed
import multiprocessing

VERIF = os.path.dirname(os.path.dirname(os.path.abspath(__file__)))
REPLAYS = os.path.join(VERIF, 'replays')
EVIDENCE = os.path.join(VERIF, 'evidence')


def seed64(base, profile, idx):
    h = hashlib.sha256(('%d/%s/%d' % (base, profile, idx)).encode()).digest()
    return int.from_bytes(h[:8], 'big')


def abstract_hash(w):
    """Hash of the abstract trace: per step (endpoint, kind, op | frame types,
    outcome class, event types)."""
    h = hashlib.blake2b(digest_size=8)
    for s in w.steps:
        if s.kind == 'call':
            item = (s.ep, s.op, s.exc['type'] if s.exc else 'ok', tuple(f.type for f in s.out_frames))
        else:
            item = (s.ep, 'r', tuple((f.type, f.flags & 0x2d) for f in s.units),
                    s.exc['type'] if s.exc else 'ok',
                    tuple(e['t'] for e in (s.events or ())), tuple(f.type for f in s.out_frames))
        h.update(repr(item).encode())
    return h.hexdigest()


def one_run(prop, profile, base_seed, idx, opts):
    """Execute one simulated run; returns a plain result dict."""
    from . import props
    from .gen import Gen
    sd = seed64(base_seed, profile, idx)
    spec = props.SPECS[prop]
    mons = spec.monitors()
    g = Gen(sd, profile, mons, overrides=spec.overrides(profile), avoid=spec.avoid_for(sd, opts))
    w = g.run()
    res = {'idx': idx, 'profile': profile, 'seed': sd, 'steps': len(w.steps), 'events': len(w.trace),
           'faults': dict(w.fault_fired), 'probes': {}, 'nontrivial': False, 'violations': [],
           'abs': abstract_hash(w), 'cfg': w.cfg}
    for m in mons:
        for k, v in m.probes.items():
            res['probes'][k] = res['probes'].get(k, 0) + v
        res['nontrivial'] = res['nontrivial'] or m.nontrivial
        for v in m.violations:
            res['violations'].append(v.as_dict())
    if res['violations']:
        res['trace'] = w.trace
    # what-if branches (arbitrary adversary frames / faults tried on deep copies of the simulation)
    res['branches'] = g.branch_ctr
    res['steps'] += g.branch_steps
    for k, v in g.branch_probes.items():
        res['probes'][k] = res['probes'].get(k, 0) + v
    for k, v in g.branch_faults.items():
        res['faults'][k] = res['faults'].get(k, 0) + v
    res['nontrivial'] = res['nontrivial'] or g.branch_nontrivial
    if not res['violations'] and g.branch_findings:
        vs, trace = g.branch_findings[0]
        res['violations'] = [v.as_dict() for v in vs]
        res['trace'] = trace
    if opts.get('want_sample') and not res['violations']:
        res['sample'] = sample_of(w)
    return res


def sample_of(w, limit=40):
    return [s.brief() for s in w.steps[:limit]]


def replay_events(prop, cfg, events):
    from . import props
    from .world import run_trace
    mons = props.SPECS[prop].monitors()
    w = run_trace(cfg, events, mons)
    vs = []
    for m in mons:
        vs.extend(m.violations)
    return w, vs


def sig_of(vdict):
    return (vdict['property'], vdict['monitor'], vdict['kind'], vdict['detail'])


def minimise(prop, cfg, events, sig, budget_s=20.0, max_execs=1500):
    """Delta debugging over the event list keeping the same violation signature."""
    t0 = time.time()
    execs = [0]

    def still(evs):
        if execs[0] >= max_execs or time.time() - t0 > budget_s:
            return False
        execs[0] += 1
        try:
            _, vs = replay_events(prop, cfg, evs)
        except Exception:
            return False
        return any(v.signature == sig for v in vs)

    def pinned(ev):
        # programs start with initiate_connection: never minimise that away
        return ev.get('ev') == 'call' and ev.get('op') in ('initiate_connection', 'initiate_upgrade_connection',
                                                           'set_local_settings')

    cur = list(events)
    n = 2
    while len(cur) >= 2:
        chunk = max(1, len(cur) // n)
        reduced = False
        i = 0
        while i < len(cur):
            cand = cur[:i] + [e for e in cur[i:i + chunk] if pinned(e)] + cur[i + chunk:]
            if len(cand) < len(cur) and still(cand):
                cur = cand
                reduced = True
            else:
                i += chunk
        if not reduced:
            if chunk == 1:
                break
            n = min(len(cur), n * 2)
        else:
            n = max(2, n - 1)
        if execs[0] >= max_execs or time.time() - t0 > budget_s:
            break
    # per-event simplification: shrink payloads
    for i, ev in enumerate(list(cur)):
        if ev.get('ev') == 'call' and isinstance(ev.get('a'), dict) and isinstance(ev['a'].get('data'), (bytes, bytearray)) and len(ev['a']['data']) > 1:
            for newlen in (0, 1):
                ev2 = dict(ev)
                ev2['a'] = dict(ev['a'])
                ev2['a']['data'] = ev['a']['data'][:newlen]
                cand = cur[:i] + [ev2] + cur[i + 1:]
                if still(cand):
                    cur = cand
                    break
    return cur, execs[0]


def write_replay(prop, res, events, sig, minimised_from):
    from .world import enc
    os.makedirs(REPLAYS, exist_ok=True)
    sig8 = hashlib.sha256(repr(sig).encode()).hexdigest()[:8]
    path = os.path.join(REPLAYS, '%s-%s-%d.json' % (prop, sig8, res['seed']))
    doc = {'format': 1, 'property': prop, 'profile': res['profile'], 'seed': res['seed'], 'run': res['idx'],
           'signature': list(sig), 'cfg': enc(res['cfg']), 'events': enc(events),
           'minimised_from': minimised_from, 'h2_tree': tree_id()}
    with open(path, 'w') as f:
        json.dump(doc, f, indent=0)
    return path


def tree_id():
    try:
        rev = subprocess.run(['git', '-C', '/repo', 'rev-parse', '--short', 'HEAD'], capture_output=True, text=True, timeout=10).stdout.strip()
        dirty = subprocess.run(['git', '-C', '/repo', 'status', '--porcelain', '--', 'src'], capture_output=True, text=True, timeout=10).stdout.strip()
        return rev + ('+dirty' if dirty else '')
    except Exception:
        return 'unknown'


def load_replay(path):
    from .world import dec
    with open(path) as f:
        doc = json.load(f)
    return doc, dec(doc['cfg']), dec(doc['events'])


def replay_file(path, prop=None):
    """Re-execute a replay file. Returns (reproduced, violations)."""
    doc, cfg, events = load_replay(path)
    prop = prop or doc['property']
    _, vs = replay_events(prop, cfg, events)
    want = tuple(doc['signature'])
    return any(v.signature == want for v in vs), vs, doc


def fresh_process_replay(path):
    """Replay in a fresh interpreter (another hash seed); True iff reproduced."""
    env = dict(os.environ)
    env['PYTHONHASHSEED'] = '12345'
    r = subprocess.run([sys.executable, os.path.join(VERIF, 'check'), '--replay', path, '--quiet'],
                       env=env, capture_output=True, text=True, timeout=120)
    return r.returncode == 1 and 'VIOLATION' in r.stdout


def _worker(args):
    prop, profile, base_seed, idxs, opts = args
    faulthandler.dump_traceback_later(opts.get('watchdog', 300), exit=True)
    out = []
    findings = load_findings(prop)
    task_sigs = set()
    try:
        for i in idxs:
            try:
                res = one_run(prop, profile, base_seed, i, dict(opts, want_sample=(i % 97 == 0)))
            except Exception:
                res = {'idx': i, 'profile': profile, 'harness_error': traceback.format_exc(),
                       'seed': seed64(base_seed, profile, i)}
                out.append(res)
                continue
            if res['violations']:
                # minimise here, in the worker
                v0 = res['violations'][0]
                sig = sig_of(v0)
                if any(f.status == 'open' and f.matches(v0) for f in findings):
                    # a re-observation of a listed open finding: counted and reported as KNOWN-FINDING by the parent;
                    # no minimisation and no replay file (hundreds per run would only fill the disk)
                    res.pop('trace', None)
                    res.pop('cfg', None)
                    out.append(res)
                    continue
                if sig in task_sigs:
                    # the same violation again within this batch of runs: the first one carries the replay file
                    res['dup'] = True
                    res.pop('trace', None)
                    res.pop('cfg', None)
                    out.append(res)
                    continue
                task_sigs.add(sig)
                try:
                    events, nexec = minimise(prop, res['cfg'], res['trace'], sig,
                                             budget_s=opts.get('min_budget', 15.0))
                    res['replay'] = write_replay(prop, res, events, sig, len(res['trace']))
                    res['min_len'] = len(events)
                except Exception:
                    res['harness_error'] = traceback.format_exc()
                res.pop('trace', None)
            res.pop('cfg', None)
            out.append(res)
    finally:
        faulthandler.cancel_dump_traceback_later()
    return out


class Finding:
    def __init__(self, d):
        self.d = d
        self.id = d['id']
        self.prop = d['property']
        self.status = d.get('status', 'open')
        self.what = d['what']
        self.match = d['match']

    def matches(self, v):
        m = self.match
        for key in ('monitor', 'kind'):
            if key in m and m[key] != v[key]:
                return False
        if 'detail' in m and not re.fullmatch(m['detail'], v['detail'] or ''):
            return False
        for k, want in (m.get('facts') or {}).items():
            if v.get('facts', {}).get(k) != want:
                return False
        return True


def load_findings(prop):
    path = os.path.join(VERIF, 'known_findings.json')
    if not os.path.exists(path):
        return []
    with open(path) as f:
        doc = json.load(f)
    return [Finding(d) for d in doc.get('findings', []) if d['property'] == prop]


def base_opts(prop):
    """Avoidance hints: triggers of open findings (any property) are steered
    around in most runs; one run in ten re-confirms this property's own."""
    path = os.path.join(VERIF, 'known_findings.json')
    avoid_all, avoid_own = set(), set()
    if os.path.exists(path):
        with open(path) as f:
            doc = json.load(f)
        for d in doc.get('findings', []):
            if d.get('status') == 'open':
                for tag in d.get('avoid', []):
                    avoid_all.add(tag)
                    if d['property'] == prop:
                        avoid_own.add(tag)
    return {'avoid_all': sorted(avoid_all), 'avoid_own': sorted(avoid_own)}


def run_check(prop, tier, base_seed, workers=None, quiet=False):
    from . import props
    spec = props.SPECS[prop]
    t0 = time.time()
    plan = spec.plan(tier)       # list of (profile, nruns)
    budget = spec.budget(tier)
    workers = workers or min(16, os.cpu_count() or 4)
    findings = load_findings(prop)
    open_findings = [f for f in findings if f.status == 'open']
    opts = base_opts(prop)
    opts['tier'] = tier
    tasks = []
    CH = 25
    for profile, n in plan:
        for a in range(0, n, CH):
            tasks.append((prop, profile, base_seed, list(range(a, min(n, a + CH))), opts))
    results = []
    harness_errors = []
    truncated = False
    ctx = multiprocessing.get_context('fork')
    with ProcessPoolExecutor(max_workers=workers, mp_context=ctx) as ex:
        futs = [ex.submit(_worker, t) for t in tasks]
        try:
            for fu in as_completed(futs, timeout=budget):
                try:
                    results.extend(fu.result())
                except Exception as e:   # worker died (watchdog) -> harness error
                    harness_errors.append('worker failed: %r' % (e,))
        except Exception:
            truncated = True
            for fu in futs:
                fu.cancel()
    results.sort(key=lambda r: (r['profile'], r['idx']))
    wall = time.time() - t0
    # ---- classify -------------------------------------------------------
    viol_runs = [r for r in results if r.get('violations')]
    for r in results:
        if r.get('harness_error'):
            harness_errors.append('run %s/%s: %s' % (r['profile'], r['idx'], r['harness_error'][-600:]))
    known_hits = {}
    new = []
    for r in viol_runs:
        v = r['violations'][0]
        hit = None
        for f in open_findings:
            if f.matches(v):
                hit = f
                break
        if hit:
            known_hits.setdefault(hit.id, []).append(r)
        else:
            new.append(r)
    # confirm new violations by fresh-process replay
    confirmed = []
    seen_sigs = set()
    for r in new:
        sig = sig_of(r['violations'][0])
        if r.get('dup'):
            continue
        if 'replay' not in r:
            harness_errors.append('violation without replay file: %r' % (sig,))
            continue
        if sig in seen_sigs:
            continue
        seen_sigs.add(sig)
        if fresh_process_replay(r['replay']):
            confirmed.append(r)
        else:
            harness_errors.append('violation did not reproduce in a fresh process: %r %s' % (sig, r['replay']))
    # ---- evidence ---------------------------------------------------------
    ev = build_evidence(prop, tier, base_seed, spec, plan, results, wall, confirmed, known_hits, truncated, harness_errors)
    os.makedirs(EVIDENCE, exist_ok=True)
    with open(os.path.join(EVIDENCE, '%s.json' % prop), 'w') as f:
        json.dump(ev, f, indent=1, sort_keys=True)
    # ---- report ---------------------------------------------------------------
    for f in open_findings:
        n = len(known_hits.get(f.id, []))
        print('KNOWN-FINDING: property=%s %s [%s]%s' % (prop, f.what, f.id, (' (re-observed in %d runs)' % n) if n else ''))
    for r in confirmed:
        v = r['violations'][0]
        print('VIOLATION property=%s replay=%s' % (prop, r['replay']))
        if not quiet:
            print('  signature: %s' % (sig_of(v),))
            print('  facts: %s' % (json.dumps(v.get('facts'), default=repr)[:400],))
    if not quiet:
        print('%s %s: %d runs, %d steps, %.1fs, nontrivial=%d distinct=%d, violations(new)=%d known=%d' % (
            prop, tier, len(results), sum(r.get('steps', 0) for r in results), wall,
            ev['coverage']['nontrivial_runs'], ev['coverage']['distinct_nontrivial'], len(confirmed),
            sum(len(v) for v in known_hits.values())))
    if harness_errors:
        for h in harness_errors[:5]:
            print('HARNESS-ERROR: %s' % h, file=sys.stderr)
        return 2
    if confirmed:
        return 1
    if not results:
        print('HARNESS-ERROR: no runs completed', file=sys.stderr)
        return 2
    return 0


def build_evidence(prop, tier, base_seed, spec, plan, results, wall, confirmed, known_hits, truncated, harness_errors):
    probes = {}
    faults = {}
    nontriv = set()
    nontriv_runs = 0
    allabs = set()
    steps = 0
    events = 0
    samples = []
    branches = {}
    for r in results:
        steps += r.get('steps', 0)
        events += r.get('events', 0)
        if r.get('branches'):
            branches[r['profile']] = branches.get(r['profile'], 0) + r['branches']
        for k, v in (r.get('probes') or {}).items():
            probes[k] = probes.get(k, 0) + v
        for k, v in (r.get('faults') or {}).items():
            faults[k] = faults.get(k, 0) + v
        if r.get('abs'):
            allabs.add(r['abs'])
        if r.get('nontrivial'):
            nontriv_runs += 1
            nontriv.add(r['abs'])
        if r.get('sample') and len(samples) < 3 and r.get('nontrivial'):
            samples.append({'profile': r['profile'], 'run': r['idx'], 'seed': r['seed'], 'steps': r['sample']})
    if not samples:
        for r in results:
            if r.get('sample'):
                samples.append({'profile': r['profile'], 'run': r['idx'], 'seed': r['seed'], 'steps': r['sample']})
                break
    n = len(results)
    ev = {
        'property_id': prop,
        'tier': tier,
        'seed': int(base_seed),
        'level': 'exploration',
        'wall_s': round(wall, 2),
        'violations': len(confirmed),
        'coverage': {
            'evaluations': n,
            'distinct_nontrivial': len(nontriv),
            'nontrivial_runs': nontriv_runs,
            'distinct_abstract_traces': len(allabs),
            'rule': spec.rule,
            'samples': samples or [{'note': 'no sample captured'}],
            'plan': [[p, k] for p, k in plan],
            'steps_executed': steps,
            'events_executed': events,
            'simulated_ticks': events,
            'runs_per_hour': int(n / wall * 3600) if wall > 0 else 0,
            'fault_kinds_fired': faults,
            'what_if_branches': branches,
            'probes': probes,
            'known_findings_reobserved': {k: len(v) for k, v in known_hits.items()},
            'truncated_by_budget': truncated,
            'harness_errors': len(harness_errors),
            'components': {
                'real': ['h2.connection.H2Connection (both endpoints, /repo/src working tree)',
                         'h2.stream', 'h2.frame_buffer', 'h2.settings', 'h2.windows', 'h2.utilities',
                         'hyperframe 6.1.0 and hpack 4.2.0 as installed'],
                'simulated': ['applications (API call programs)', 'duplex byte network (segmentation, stalls, cuts, corruption)',
                              'adversary peer stub (ADV/LONG profiles)'],
                'oracle': ['h2sim.codec (own frame codec)', 'h2sim.hpackref (own HPACK decoder)', 'h2sim.model (wire tracker)'],
            },
            'h2_tree': tree_id(),
        },
        'assumptions': spec.assumptions,
    }
    return ev
