"""Wire tap: incremental, independent parser of one direction's byte stream.

Splits the stream into frames (own codec), assembles header blocks and decodes
them with the reference HPACK decoder (own dynamic table).  It never raises:
malformed input is annotated on the frames.
"""
from . import codec as C
from .hpackref import RefDecoder, HpackError, header_list_size


class Tap:
    def __init__(self, expect_preface):
        self.expect_preface = expect_preface
        self.preface_left = C.PREFACE if expect_preface else b''
        self.preface_bad = False
        self.preface_done = not expect_preface
        self.buf = bytearray()
        self.offset = 0            # bytes consumed into complete frames (+preface)
        self.fed = 0
        self.frames = []           # all completed frames, in order
        self.dec = RefDecoder()
        self.dec.limit = None      # table-size limit is judged by monitors, not here
        self.block = None          # open header block: list of frames
        self.nframes = 0
        self.last_units = []       # dispatch units completed by the last feed()

    def clone_position(self):
        return (self.offset, len(self.buf))

    def feed(self, data):
        """Returns the list of frames completed by these bytes."""
        out = []
        self.last_units = units = []
        self.fed += len(data)
        if self.preface_bad:
            return out
        if self.preface_left:
            k = min(len(self.preface_left), len(data))
            if data[:k] != self.preface_left[:k]:
                self.preface_bad = True
                return out
            self.preface_left = self.preface_left[k:]
            self.offset += k
            data = data[k:]
            if not self.preface_left:
                self.preface_done = True
        if not data:
            return out
        self.buf += data
        pos = 0
        while True:
            f, npos = C.parse_frame(self.buf, pos)
            if f is None:
                break
            f.offset = self.offset + pos
            pos = npos
            u = self._blocks(f)
            if u is not None:
                units.append(u)
            self.frames.append(f)
            out.append(f)
        if pos:
            del self.buf[:pos]
            self.offset += pos
        return out

    def _blocks(self, f):
        """Header block assembly + HPACK decoding (RFC 7540 4.3).  Returns the
        dispatch unit this frame completes (the frame itself, or the first
        frame of the header block it finishes), or None."""
        if self.block is not None:
            first = self.block[0]
            if f.type == C.CONTINUATION and f.sid == first.sid:
                self.block.append(f)
                if f.end_headers:
                    self._finish_block()
                    return first
                return None
            # interleaved frame: protocol violation; block stays open
            # (whoever reads this stream must have failed here)
            if f.bad is None:
                f.bad = ('proto', 'frame inside header block')
            f.problems = tuple(f.problems) + (('proto', 'frame inside header block'),)
            return f
        if f.type in (C.HEADERS, C.PUSH_PROMISE) and f.fragment is not None and \
                (f.bad is None or f.bad[0] != 'size'):
            self.block = [f]
            if f.end_headers:
                self._finish_block()
                return f
            return None
        if f.type == C.CONTINUATION:
            if f.bad is None:
                f.bad = ('proto', 'naked CONTINUATION')
        return f

    def _finish_block(self):
        blk = self.block
        self.block = None
        first = blk[0]
        first.block_frames = blk
        if any(x.bad is not None and x.bad[1].startswith('padding') for x in blk):
            # malformed padding: a reader must fail before decoding
            first.hpack_error = 'not-decoded(padding)'
            return
        data = b''.join(x.fragment or b'' for x in blk)
        try:
            hs, ups = self.dec.decode(data)
            first.headers = hs
            first.table_updates = ups
            first.header_list_size = header_list_size([(n, v) for n, v, _ in hs])
        except HpackError as e:
            first.hpack_error = str(e) or 'hpack error'
        except Exception as e:  # pragma: no cover - decoder bug guard
            first.hpack_error = 'REFDECODER-BUG %r' % (e,)

    def pending(self):
        return bytes(self.buf)

    def in_block(self):
        return self.block is not None


def frame_ends(tap, backlog, limit=3):
    """Offsets into `backlog` at which the receiver (whose input tap is `tap`)
    would have a further complete frame.  Purely syntactic."""
    r = len(tap.preface_left)
    if tap.preface_bad:
        return []
    held = len(tap.buf)
    data = bytes(tap.buf) + bytes(backlog[r:])
    ends = []
    pos = 0
    while len(data) - pos >= 9 and len(ends) < limit:
        ln = (data[pos] << 16) | (data[pos + 1] << 8) | data[pos + 2]
        end = pos + 9 + ln
        if end > len(data):
            break
        ends.append(end - held + r)
        pos = end
    return ends
