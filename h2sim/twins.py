"""Twins: differential re-execution of one endpoint's local log on fresh
connections (the library is supposed to be a deterministic function of the
call sequence and the received bytes).
"""
import hashlib
import random

from .world import Endpoint, World, summarise_events, exc_info
from . import codec as C


def _ev_key(evs):
    """Comparable form of an event summary list."""
    out = []
    for e in evs:
        d = []
        for k in sorted(e):
            v = e[k]
            if k == 'headers' and v is not None:
                v = tuple((h[0], h[1], h[2]) for h in v)
            elif k == 'changed_settings':
                v = tuple(sorted((kk, tuple(vv)) for kk, vv in v.items()))
            elif isinstance(v, list):
                v = tuple(v)
            d.append((k, v))
        out.append(tuple(d))
    return out


def segments(log):
    """[(recv_chunks_before_call, call_step_or_None)]"""
    segs = []
    cur = []
    for s in log:
        if s.kind == 'recv':
            cur.append(s.chunk)
        else:
            segs.append((cur, s))
            cur = []
    if cur:
        segs.append((cur, None))
    return segs


def drain(conn, rng=None):
    if rng is None:
        return conn.data_to_send()
    out = bytearray()
    for _ in range(100000):
        amt = rng.choice([1, 2, 3, 5, 8, 9, 10, 17, 33, 100, 1000, 100000])
        b = conn.data_to_send(amt)
        if len(b) > amt:
            return None       # more than asked for: caller reports
        if not b or rng.random() < 0.15:
            # nothing left? (an empty read with data pending would be a violation too) - or simply an application
            # that mixes bounded reads with "give me everything"
            out += b
            rest = conn.data_to_send()
            out += rest
            break
        out += b
    return bytes(out)


def run_variant(w, ep, partition, drain_rng=None):
    """Re-execute ep's local log. `partition(data, index)` -> list of chunks for
    the bytes received between two calls. Returns list of per-segment records."""
    e0 = w.eps[ep]
    e = Endpoint(ep, w.cfg[ep], w.cfg.get('knobs', {}))
    conn = e.conn
    recs = []
    dead = False
    for idx, (chunks, call) in enumerate(segments(e0.log)):
        data = b''.join(chunks)
        rec = {'events': [], 'exc': None, 'out': b'', 'call': None, 'call_out': b'', 'n': len(data)}
        if data:
            for ch in partition(data, idx):
                if not ch:
                    continue
                try:
                    evs = conn.receive_data(ch)
                    sm = summarise_events(evs)
                    for i, e_ in enumerate(sm):
                        # related-event links as relative offsets: lists of several calls get concatenated
                        for k in ('stream_ended', 'priority_updated'):
                            if e_.get(k) is not None and e_[k] >= 0:
                                e_[k] = e_[k] - i
                    rec['events'].extend(sm)
                except Exception as ex:  # noqa: BLE001
                    x = exc_info(ex)
                    rec['exc'] = (x['type'], x['code'])
                    dead = True
                    break
            o = drain(conn, drain_rng)
            rec['out'] = o
        recs.append(rec)
        if dead:
            break
        if call is not None:
            try:
                ret = World._dispatch(conn, call.op, call.args or {})
                rec['call'] = ('ok', ret if isinstance(ret, (int, bytes, type(None))) else None)
            except Exception as ex:  # noqa: BLE001
                x = exc_info(ex)
                rec['call'] = (x['type'], x['code'])
            rec['call_out'] = drain(conn, drain_rng)
    return recs


def compare(a, b):
    """First discrepancy between two variant records, or None."""
    for i, (ra, rb) in enumerate(zip(a, b)):
        if ra['exc'] != rb['exc']:
            return {'segment': i, 'what': 'error', 'a': ra['exc'], 'b': rb['exc']}
        if ra['out'] is None or rb['out'] is None or ra['call_out'] is None or rb['call_out'] is None:
            return {'segment': i, 'what': 'data_to_send(amount) returned more than asked'}
        if ra['out'] != rb['out']:
            return {'segment': i, 'what': 'emitted-bytes', 'a': ra['out'][:64].hex(), 'b': rb['out'][:64].hex(),
                    'la': len(ra['out']), 'lb': len(rb['out'])}
        if ra['exc'] is None and _ev_key(ra['events']) != _ev_key(rb['events']):
            return {'segment': i, 'what': 'events', 'a': [e['t'] for e in ra['events']][:12],
                    'b': [e['t'] for e in rb['events']][:12]}
        if ra['call'] != rb['call']:
            return {'segment': i, 'what': 'call-outcome', 'a': ra['call'], 'b': rb['call']}
        if ra['call_out'] != rb['call_out']:
            return {'segment': i, 'what': 'call-output', 'la': len(ra['call_out']), 'lb': len(rb['call_out'])}
    if len(a) != len(b):
        return {'segment': min(len(a), len(b)), 'what': 'length', 'a': len(a), 'b': len(b)}
    return None


def twin_rng(w, ep, salt):
    h = hashlib.sha256(('%s/%s/%s' % (w.cfg.get('seed', 0), ep, salt)).encode()).digest()
    return random.Random(int.from_bytes(h[:8], 'big'))


def frame_offsets(data, expect_preface):
    """Offsets of frame starts inside data (syntactic)."""
    offs = []
    pos = 24 if expect_preface else 0
    while pos + 9 <= len(data):
        offs.append(pos)
        ln = (data[pos] << 16) | (data[pos + 1] << 8) | data[pos + 2]
        pos += 9 + ln
    return offs


def run_lazy(w, ep, rng):
    """Re-execute ep's log with the primary chunking, but take output lazily:
    after every step only a random amount (possibly nothing) is read with
    data_to_send(amount); everything left is read at the end.  Returns the
    concatenation of all bytes read, and whether any read returned more than
    asked for."""
    e0 = w.eps[ep]
    e = Endpoint(ep, w.cfg[ep], w.cfg.get('knobs', {}))
    conn = e.conn
    out = bytearray()
    bad_read = False
    for s in e0.log:
        try:
            if s.kind == 'recv':
                conn.receive_data(s.chunk)
            else:
                World._dispatch(conn, s.op, s.args or {})
        except Exception:  # noqa: BLE001
            pass
        r = rng.random()
        if r < 0.45:
            continue
        amt = rng.choice([1, 2, 5, 9, 10, 13, 17, 40, 100, 4096, 16384, None, None])
        b = conn.data_to_send(amt)
        if amt is not None and len(b) > amt:
            bad_read = True
        out += b
    out += conn.data_to_send()
    return bytes(out), bad_read
