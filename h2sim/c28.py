"""C28 - output is a deterministic function of the call sequence: process twin.

Traces generated in this process are re-executed in fresh interpreters under
other PYTHONHASHSEED values (and another fake wall clock); the digests of all
outputs, events and exceptions must be identical.  Tripwires make any use of
clocks, randomness or OS entropy by h2 itself a violation.
"""
import hashlib
import json
import os
import re
import subprocess
import sys
import time

from . import runner

TRIPS = []
# hpack 4.2 puts the repr of a memoryview (an address) into one of its messages, which h2 forwards: masked
_ADDR = re.compile(r'0x[0-9a-fA-F]+')


_INSTALLED = [False]


def install_tripwires():
    if _INSTALLED[0]:
        return
    _INSTALLED[0] = True
    import random as _random
    import os as _os
    import time as _time

    def wrap(mod, name):
        orig = getattr(mod, name)

        def tw(*a, **k):
            f = sys._getframe(1)
            m = f.f_globals.get('__name__', '')
            if m == 'h2' or m.startswith('h2.'):
                TRIPS.append('%s.%s called from %s' % (mod.__name__, name, m))
            return orig(*a, **k)
        setattr(mod, name, tw)
    for n in ('time', 'monotonic', 'perf_counter', 'time_ns', 'monotonic_ns'):
        wrap(_time, n)
    for n in ('random', 'randint', 'randrange', 'choice', 'getrandbits', 'shuffle', 'uniform'):
        wrap(_random, n)
    wrap(_os, 'urandom')


def digest_world(w):
    h = hashlib.sha256()
    for ep in ('c', 's'):
        for s in w.eps[ep].log:
            h.update(repr((s.ep, s.kind, s.op, s.ok, (s.exc or {}).get('type'), (s.exc or {}).get('code'),
                           _ADDR.sub('0x?', (s.exc or {}).get('msg') or ''))).encode())
            h.update(s.out)
            if s.events is not None:
                for e in s.events:
                    h.update(repr(sorted((k, repr(v)) for k, v in e.items())).encode())
            if s.kind == 'call' and s.ok and isinstance(s.ret, (int, bytes, dict)):
                h.update(repr(sorted(s.ret.items()) if isinstance(s.ret, dict) else s.ret).encode())
    return h.hexdigest()


def gen_worker(args):
    profile, base_seed, idxs = args
    from .gen import Gen
    from .world import enc
    from . import props
    install_tripwires()
    out = []
    for i in idxs:
        sd = runner.seed64(base_seed, profile, i)
        del TRIPS[:]
        ov = dict(props.SPECS['C28'].overrides(profile) or {})
        ov['fork'] = 0.0
        g = Gen(sd, profile, [], overrides=ov, avoid=())
        w = g.run()
        out.append({'profile': profile, 'idx': i, 'seed': sd, 'cfg': enc(w.cfg), 'events': enc(w.trace),
                    'digest': digest_world(w), 'steps': len(w.steps), 'trips': list(TRIPS), 'abs': runner.abstract_hash(w),
                    'sample': runner.sample_of(w, 12) if i % 211 == 0 else None})
    return out


def verify_file(path, shard, nshards):
    """Subprocess side: recompute digests, print mismatches as JSON lines."""
    from .world import dec, run_trace
    install_tripwires()
    n = 0
    with open(path) as f:
        for ln, line in enumerate(f):
            if ln % nshards != shard:
                continue
            rec = json.loads(line)
            del TRIPS[:]
            w = run_trace(dec(rec['cfg']), dec(rec['events']), [])
            d = digest_world(w)
            n += 1
            if d != rec['digest'] or TRIPS:
                print(json.dumps({'line': ln, 'digest': d, 'trips': list(TRIPS)}))
    print(json.dumps({'done': n}))
    return 0


def fresh_digest(cfg_enc, events_enc, hashseed):
    """Digest of a trace computed in a fresh interpreter under another hash seed."""
    tmp = os.path.join(runner.REPLAYS, '.c28-one-%d.jsonl' % os.getpid())
    with open(tmp, 'w') as f:
        f.write(json.dumps({'cfg': cfg_enc, 'events': events_enc, 'digest': '?'}) + '\n')
    try:
        env = dict(os.environ)
        env['PYTHONHASHSEED'] = str(hashseed)
        r = subprocess.run([sys.executable, os.path.join(runner.VERIF, 'check'), '--c28-verify', tmp, '0', '1'],
                           env=env, capture_output=True, text=True, timeout=300)
        for line in r.stdout.splitlines():
            d = json.loads(line)
            if 'digest' in d:
                return d['digest'], d['trips']
    finally:
        os.unlink(tmp)
    return None, ['no digest from subprocess: %s' % r.stderr[-300:]]


def replay(path):
    """./check C28 --replay: in-process digest vs fresh interpreters."""
    from .world import dec, run_trace
    with open(path) as f:
        doc = json.load(f)
    install_tripwires()
    w = run_trace(dec(doc['cfg']), dec(doc['events']), [])
    d0 = digest_world(w)
    bad = list(TRIPS)
    # the hash seeds under which the batch run saw the difference first: a dependence on set/dict order shows
    # under some seeds only (any seed that disagrees with this process is a violation)
    seeds = [int(x) for x in doc.get('hash_seeds', []) if str(x).isdigit()]
    for hs in seeds + [x for x in (3, 99) if x not in seeds]:
        d, trips = fresh_digest(doc['cfg'], doc['events'], hs)
        if d != d0 or trips:
            bad.append('PYTHONHASHSEED=%s digest %s != %s %s' % (hs, d, d0, trips))
    return bad, doc


def run_check(tier, base_seed, quiet=False):
    import multiprocessing
    from concurrent.futures import ProcessPoolExecutor
    from . import props
    spec = props.SPECS['C28']
    t0 = time.time()
    plan = spec.plan(tier)
    tasks = []
    for profile, n in plan:
        for a in range(0, n, 25):
            tasks.append((profile, base_seed, list(range(a, min(n, a + 25)))))
    recs = []
    with ProcessPoolExecutor(16, mp_context=multiprocessing.get_context('fork')) as ex:
        for res in ex.map(gen_worker, tasks):
            recs.extend(res)
    os.makedirs(runner.REPLAYS, exist_ok=True)
    path = os.path.join(runner.REPLAYS, '.c28-batch-%d-%d.jsonl' % (base_seed, os.getpid()))
    with open(path, 'w') as f:
        for r in recs:
            f.write(json.dumps({'cfg': r['cfg'], 'events': r['events'], 'digest': r['digest']}) + '\n')
    harness = []
    mism = {}
    try:
        procs = []
        # (two values are not enough: the order of a two-element set is the same under about half of all seeds)
        hashseeds = ['1', '31337', '2', '77'] if (tier == 'quick' and not os.environ.get('C28_ALL_SEEDS')) else ['1', '31337', '2', '77', '3', '99', '4242', '65537']
        nsh = 16 // len(hashseeds)
        for hs in hashseeds:
            for sh in range(nsh):
                env = dict(os.environ)
                env['PYTHONHASHSEED'] = hs
                procs.append((hs, subprocess.Popen([sys.executable, os.path.join(runner.VERIF, 'check'), '--c28-verify', path,
                                                    str(sh), str(nsh)], env=env, stdout=subprocess.PIPE, stderr=subprocess.PIPE, text=True)))
        verified = 0
        for hs, p in procs:
            out, err = p.communicate(timeout=spec.budget(tier))
            if p.returncode != 0:
                harness.append('verifier failed (hash seed %s): %s' % (hs, err[-400:]))
                continue
            for line in out.splitlines():
                d = json.loads(line)
                if 'done' in d:
                    verified += d['done']
                else:
                    mism.setdefault(d['line'], []).append((hs, d))
    finally:
        os.unlink(path)
    violations = []
    for r in recs:
        if r['trips']:
            mism.setdefault(recs.index(r), []).append(('self', {'trips': r['trips']}))
    for ln, lst in sorted(mism.items()):
        r = recs[ln]
        kind = 'tripwire' if any(x[1].get('trips') for x in lst) else 'digest-mismatch'
        sig = ('C28', 'process-twin', kind, r['profile'])
        res = {'profile': r['profile'], 'seed': r['seed'], 'idx': r['idx'], 'cfg': r['cfg']}
        # replay file (already encoded)
        p2 = os.path.join(runner.REPLAYS, 'C28-%s-%d.json' % (hashlib.sha256(repr(sig).encode()).hexdigest()[:8], r['seed']))
        with open(p2, 'w') as f:
            json.dump({'format': 1, 'property': 'C28', 'profile': r['profile'], 'seed': r['seed'], 'run': r['idx'],
                       'signature': list(sig), 'cfg': r['cfg'], 'events': r['events'], 'detail': [x[1] for x in lst][:3],
                       'hash_seeds': sorted(set(x[0] for x in lst if x[0] != 'self')),
                       'h2_tree': runner.tree_id()}, f)
        bad, _ = replay(p2)
        if bad:
            violations.append((sig, p2))
        else:
            harness.append('C28 mismatch did not reproduce: %s' % p2)
        if len(violations) >= 5 or len(harness) >= 20:
            break
    wall = time.time() - t0
    nontriv = set(r['abs'] for r in recs if r['steps'] > 10)
    ev = {
        'property_id': 'C28', 'tier': tier, 'seed': int(base_seed), 'level': 'exploration', 'wall_s': round(wall, 2),
        'violations': len(violations),
        'coverage': {
            'evaluations': len(recs),
            'distinct_nontrivial': len(nontriv),
            'rule': spec.rule,
            'samples': [{'profile': r['profile'], 'run': r['idx'], 'seed': r['seed'], 'steps': r['sample']} for r in recs if r['sample']][:3]
            or [{'note': 'no sample captured'}],
            'plan': [[p, k] for p, k in plan],
            'fresh_interpreter_replays': verified,
            'hash_seeds': hashseeds,
            'steps_executed': sum(r['steps'] for r in recs),
            'runs_per_hour': int(len(recs) / wall * 3600) if wall else 0,
            'tripwires': ['time.time/monotonic/perf_counter/time_ns', 'random.*', 'os.urandom'],
            'harness_errors': len(harness),
            'h2_tree': runner.tree_id(),
        },
        'assumptions': spec.assumptions,
    }
    os.makedirs(runner.EVIDENCE, exist_ok=True)
    with open(os.path.join(runner.EVIDENCE, 'C28.json'), 'w') as f:
        json.dump(ev, f, indent=1, sort_keys=True)
    for sig, p2 in violations:
        print('VIOLATION property=C28 replay=%s' % p2)
        if not quiet:
            print('  signature: %s' % (sig,))
    if not quiet:
        print('C28 %s: %d traces, %d fresh-interpreter replays under PYTHONHASHSEED %s, %.1fs, violations=%d' % (
            tier, len(recs), verified, hashseeds, wall, len(violations)))
    if harness:
        for h in harness[:5]:
            print('HARNESS-ERROR: %s' % h, file=sys.stderr)
        return 2
    return 1 if violations else 0
