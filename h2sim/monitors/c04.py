"""C04 - inbound flow control is enforced exactly at the advertised windows."""
from .base import Monitor
from .. import codec as C


class C04(Monitor):
    prop = 'C04'
    name = 'recv-window'

    def start(self, w):
        w.observe_windows = True

    def on_step(self, w, s):
        e = w.eps[s.ep]
        trk = e.trk
        if s.kind == 'recv':
            conn = s.snap['conn_recv']
            single = s.exact
            # WINDOW_UPDATEs the endpoint queued while working through this very chunk (automatic credit for DATA on
            # closed streams, acknowledgements of SETTINGS ...) may already count for the later frames of the chunk:
            # the order inside one call is not visible on the wire, so they widen the tolerance of the burst check
            slack_conn = sum(f.increment or 0 for f in s.out_frames if f.type == C.WINDOW_UPDATE and f.sid == 0)
            slack_st = {}
            for f in s.out_frames:
                if f.type == C.WINDOW_UPDATE and f.sid:
                    slack_st[f.sid] = slack_st.get(f.sid, 0) + (f.increment or 0)
            for i, f in enumerate(s.units):
                if f.type != C.DATA or f.bad:
                    continue
                if s.snap['closed']:
                    break
                pre = s.pre[i]
                over_conn = f.fc_len > 0 and f.fc_len > conn + (0 if single else slack_conn)
                receivable = pre is not None and pre.state in ('open', 'hcL')
                over_stream = receivable and f.fc_len > 0 and f.fc_len > pre.recv_win + (0 if single else slack_st.get(f.sid, 0))
                if f.fc_len and (f.fc_len == conn or (receivable and f.fc_len == pre.recv_win)):
                    self.probe('data_at_window_edge')
                    self.nontrivial = True
                if over_conn or over_stream:
                    self.probe('data_over_window')
                    self.nontrivial = True
                    if s.ok:
                        self.fail('overrun-accepted', 'DATA beyond the advertised window was accepted', s,
                                  fc_len=f.fc_len, conn=conn, stream=pre.recv_win if pre else None)
                    elif single and s.exc.get('code') != C.FLOW_CONTROL_ERROR and receivable and pre.recv == 'final' \
                            and f.length <= s.snap['mine'][C.S_MAX_FRAME_SIZE]:      # (an oversize frame is a FRAME_SIZE_ERROR first)
                        self.fail('overrun-wrong-code', 'DATA beyond the window rejected with another code', s,
                                  code=s.exc.get('code'))
                elif single and not s.ok and s.exc['type'] == 'FlowControlError':
                    self.fail('fitting-data-rejected', 'DATA within the advertised windows rejected for flow control', s,
                              fc_len=f.fc_len, conn=conn, stream=pre.recv_win if pre else None)
                conn -= f.fc_len
        if trk.dead or trk.closed:
            return
        # remote_flow_control_window == advertised window, for every live stream, after every step
        if s.obs:
            for sid, o in s.obs.items():
                st = trk.get(sid)
                if st is None or isinstance(o, str):
                    continue
                want = min(trk.conn_recv, st.recv_win)
                if o[1] != want:
                    kind = 'window-report'
                    if s.kind == 'call' and not s.ok:
                        kind = 'failed-call-changed-window'
                    self.fail(kind, 'remote_flow_control_window differs from the advertised window%s' % (
                        ' after ' + s.op if s.kind == 'call' else ''), s, sid=sid, got=o[1], want=want,
                        op=s.op, exc=s.exc['type'] if s.exc else None)
                    break
        if s.kind == 'call' and s.op in ('increment_flow_control_window', 'acknowledge_received_data',
                                         'update_settings') and not s.ok:
            self.probe('failed_window_call')
            self.nontrivial = True
            if s.out:
                self.fail('failed-call-emitted', 'a raising window call emitted bytes', s, op=s.op)
