"""RFC 7540 reference rules (section 5.1, 5.1.1, 5.1.2, 6, 8.1, 8.2; RFC 7838),
written from the RFC and amended by the library's *documented* leniencies
(DESIGN.md 3.3, L1-L7).  They answer, for one endpoint and its wire-tracked
pre-state: what must happen to a delivered frame, and may a local call succeed.

Verdicts for delivered frames:
  ('accept',) | ('ignore',) | ('stream', code) | ('conn', code) | ('either', v1, v2, ...)
Verdicts for calls:
  'ok' | 'fail' | 'either'
"""
from . import codec as C
from .model import NONE, INFO, FINAL, TRAILERS, is_info

ACCEPT = ('accept',)
IGNORE = ('ignore',)
P = C.PROTOCOL_ERROR
SC = C.STREAM_CLOSED
MAXID = 2 ** 31 - 1


def either(*vs):
    return ('either',) + tuple(vs)


def maybe_forgotten(trk, pre, knob):
    """True if the closed stream may have fallen out of the closed-stream memory."""
    if pre is None or pre.close_seq is None:
        return False
    # The library inserts closed streams into its bounded memory when it
    # garbage-collects them, in stream-creation order, not in closing order.
    # The only bound that is sound without copying that mechanism: nothing
    # has ever been evicted while no more streams than the bound have closed.
    return trk.close_counter > knob


def frame_verdict(trk, snap, pre, f, client, knob, gc_possible=True):
    """Verdict for a delivered dispatch unit, judged on stream state alone
    (header validity, flow control, content length, settings values and
    concurrency limits are other properties' business: the caller only uses
    this verdict when those are satisfied)."""
    t = f.type
    sid = f.sid
    if t in (C.SETTINGS, C.PING, C.GOAWAY) or (t == C.WINDOW_UPDATE and sid == 0):
        return ACCEPT
    if t == C.PRIORITY:
        if f.prio and f.prio[0] == sid:
            return ('conn', P)
        return ACCEPT
    if t > C.ALTSVC:
        return ACCEPT
    if t == C.ALTSVC:
        return ACCEPT          # accepted or silently ignored: never an error
    if t == C.CONTINUATION:
        return ('conn', P)     # naked CONTINUATION (L6)
    mine = trk.is_mine(sid)
    state = pre.state if pre is not None else None
    if pre is None:
        hi = snap['hi_mine'] if mine else snap['hi_peer']
        idle_new = (not mine) and sid > hi
        if t == C.HEADERS:
            if client:
                return ('conn', P)
            return ACCEPT if idle_new else ('conn', P)
        if t == C.RST_STREAM:
            return either(IGNORE, ('conn', P))       # L3
        if t == C.DATA:
            return either(('conn', P), ('stream', SC))
        if t == C.WINDOW_UPDATE and sid <= hi:
            # a never-used id below the watermark was closed implicitly: like any closed stream
            return either(IGNORE, ('conn', P))
        return ('conn', P)      # WINDOW_UPDATE / PUSH_PROMISE on idle streams
    forgotten = state == 'closed' and maybe_forgotten(trk, pre, knob)
    if t == C.HEADERS:
        if state in ('open', 'hcL'):
            return ACCEPT       # subject to message grammar (C07/C16) - judged by the caller
        if state == 'rsvR':
            return ACCEPT
        if state == 'hcR':
            return ('stream', SC)
        if state == 'rsvL':
            return ('conn', P)
        if pre.closed_by == 'rst_sent':
            v = either(IGNORE, ('stream', SC))
        elif pre.closed_by == 'rst_recv':
            v = ('stream', SC)
        else:
            v = ('conn', SC)
        if forgotten:
            return either(v, ('conn', P), ('stream', SC), ('conn', SC))
        return v
    if t == C.DATA:
        if state in ('open', 'hcL'):
            return ACCEPT
        # L1: DATA on any closed / non-receivable stream is a stream error STREAM_CLOSED
        if state in ('rsvL', 'rsvR'):
            return either(('stream', SC), ('conn', P))
        return ('stream', SC)
    if t == C.RST_STREAM:
        if state == 'closed':
            return IGNORE
        return ACCEPT
    if t == C.WINDOW_UPDATE:
        if state == 'closed':
            return IGNORE
        if state == 'rsvR':
            return either(ACCEPT, ('conn', P))
        return ACCEPT
    if t == C.PUSH_PROMISE:
        if not client:
            return ('conn', P)
        if state in ('open', 'hcL'):
            if not pre.mine or pre.pushed:
                return ('conn', P)          # no recursive pushes
            return ACCEPT
        if state == 'closed' and pre.closed_by == 'rst_sent':
            p = f.promised
            if not pre.mine or pre.pushed:
                # a promise on a pushed stream (no recursive pushes) that was reset: either reason may be given
                return either(('stream', C.REFUSED_STREAM), ('conn', P), ('stream', SC), ('conn', SC))
            if forgotten or not p or p % 2 or p <= snap['hi_peer']:
                # a promised id that is not new: a connection error, or the reaction any frame on that (reset) id gets
                return either(('stream', C.REFUSED_STREAM), ('conn', P), ('stream', SC), ('conn', SC))
            return ('stream', C.REFUSED_STREAM)     # refusal of the promised stream
        return ('conn', P)
    return ACCEPT


def headers_kind_ok(pre, f, client):
    """For HEADERS accepted by state: does the block fit the message grammar?
    Returns 'ok', 'bad' (must be an error) or 'either'."""
    hs = [(n, v) for n, v, _ in (f.headers or [])]
    info = is_info(hs)
    es = f.end_stream
    if pre is None:
        return 'ok'
    if pre.state == 'rsvR':
        if info:
            return 'either'
        return 'ok'
    receiver_is_client_side = (pre.mine and not pre.pushed) or (pre.pushed and not pre.mine)
    if receiver_is_client_side:
        if pre.recv in (NONE, INFO):
            if info:
                return 'bad' if es else 'ok'
            return 'ok'
        if pre.recv == FINAL:
            if info:
                return 'bad'
            return 'ok' if es else 'bad'       # trailers must end the stream
        return 'bad'
    # server side of the stream: only trailers may follow the request
    if pre.recv == FINAL:
        return 'ok' if es else 'bad'
    return 'bad'


# ---------------------------------------------------------------------------
# local calls

def call_verdict(trk, snap, pre, op, a, client, knob):
    """May this call succeed, judged on connection/stream state and role."""
    if snap['closed']:
        if op == 'close_connection':
            return 'ok'
        if op == 'acknowledge_received_data':
            return 'either'
        return 'fail'
    sid = a.get('sid')
    state = pre.state if pre is not None else None
    if op == 'send_headers':
        if not isinstance(sid, int) or sid <= 0 or sid > MAXID:
            return 'fail'
        if any(a.get(k) is not None for k in ('pw', 'pd', 'pe')) and not client:
            return 'fail'
        if pre is None:
            if not client:
                return 'fail'
            if not trk.is_mine(sid) or sid <= snap['hi_mine']:
                return 'fail'
            return 'ok'         # subject to concurrency (C10) and header validity (C14)
        if state in ('open', 'hcR'):
            if pre.mine and not pre.pushed:
                # we opened it: only trailers (with END_STREAM) may follow
                if pre.sent == FINAL:
                    return 'ok' if a.get('es') else 'fail'
                return 'fail'
            if pre.sent in (NONE, INFO):
                return 'ok'
            if pre.sent == FINAL:
                return 'ok' if a.get('es') else 'fail'
            return 'fail'
        if state == 'rsvL':
            return 'either' if _looks_info(a.get('headers')) else 'ok'
        return 'fail'           # hcL, rsvR, closed
    if op in ('send_data', 'end_stream'):
        if pre is None:
            return 'fail'
        if state in ('open', 'hcR'):
            if pre.sent == FINAL:
                return 'ok'
            if pre.sent == TRAILERS:
                return 'fail'
            # body before final headers: must fail by C08; the library lets servers do it
            return 'fail'
        return 'fail'
    if op == 'reset_stream':
        if pre is None:
            return 'fail'
        return 'fail' if state == 'closed' else 'ok'
    if op == 'increment_flow_control_window':
        if sid is None:
            return 'ok'
        if pre is None:
            return 'fail'
        if state == 'closed':
            return 'fail'
        if state == 'rsvL':
            return 'either'
        return 'ok'
    if op == 'push_stream':
        if client or pre is None:
            return 'fail'
        if not snap['peer'].get(C.S_ENABLE_PUSH, 1):
            return 'fail'
        if state in ('open', 'hcR') and not pre.mine:
            p = a.get('promised')
            if not isinstance(p, int) or p % 2 or p <= snap['hi_mine'] or p > MAXID or p <= 0:
                return 'fail'
            return 'ok'
        return 'fail'
    if op == 'advertise_alternative_service':
        if client:
            return 'fail'
        if a.get('origin') is not None:
            return 'ok' if sid is None else 'fail'
        if pre is None:
            return 'fail'
        if state in ('open', 'hcR') and not pre.mine:
            return 'ok' if pre.sent in (NONE, INFO) else 'fail'
        if state == 'rsvL':
            return 'either'
        return 'fail'
    if op == 'prioritize':
        return 'ok' if client else 'fail'
    if op in ('ping', 'update_settings', 'close_connection'):
        return 'ok'
    return 'either'


def _looks_info(headers):
    for h in headers or ():
        n = h[0]
        n = n.encode() if isinstance(n, str) else n
        if n.strip().lower() == b':status':
            v = h[1]
            v = v.encode() if isinstance(v, str) else v
            return v.strip()[:1] == b'1'
    return False
